#!/venv/bin/python
"""Runs the repository's baseline suite (guard off; there is no hook) and compares with BASELINE.json's stable_pass."""
import json, subprocess, sys, xml.etree.ElementTree as ET, os, tempfile
out = tempfile.mkdtemp(prefix="baseline-")
x = os.path.join(out, "junit.xml")
n = sys.argv[1] if len(sys.argv) > 1 else "12"
cmd = ["/venv/bin/python", "-m", "pytest", "-ra", "-q", "-p", "no:cacheprovider", "--timeout=900",
       "--continue-on-collection-errors", f"--junitxml={x}", "-n", n]
p = subprocess.run(cmd, cwd="/repo", capture_output=True, text=True)
print(p.stdout[-1500:])
base = json.load(open("/root/.vp/BASELINE.json"))
stable = set(base["stable_pass"])
passed = set()
for tc in ET.parse(x).getroot().iter("testcase"):
    if not any(c.tag in ("failure", "error", "skipped") for c in tc):
        passed.add(f"{tc.get('classname')}::{tc.get('name')}")
missing = sorted(stable - passed)
print(f"stable_pass={len(stable)} passed_now={len(passed)} stable_not_passing={len(missing)}")
for m in missing[:40]:
    print("  NOT PASSING:", m)
import shutil; shutil.rmtree(out, ignore_errors=True)
sys.exit(1 if missing else 0)
