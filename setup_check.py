#!/venv/bin/python
"""MANIFEST.setup_cmd: offline sanity check of what the checks need. Builds nothing that is not on disk."""
import sys, os
def main():
    import numpy, biotite  # noqa
    src = os.path.dirname(biotite.__file__)
    print("biotite from", src, "numpy", numpy.__version__)
    os.makedirs("/verif/evidence", exist_ok=True)
    os.makedirs("/verif/replays", exist_ok=True)
    return 0
if __name__ == "__main__":
    sys.exit(main())
