#!/venv/bin/python
"""Blind-spot hunt by mechanical mutation of the anchored Python sources (a development tool, not a registered check).

    tools_mutate.py list  <PROP> <file relative to src/biotite> [--funcs a,b,...]
    tools_mutate.py run   <PROP> <file> [--funcs ...] [--max N] [--sample-seed S] [--runs R] [--jobs J] [--workers W]
                          [--fast-tests "tests/..."] [--wide-tests "tests/..."] [--out survivors.jsonl]

For every mutant (one small syntactic change: comparison / arithmetic / boolean operator swapped, constant changed,
condition negated, statement dropped) an *overlay* of /repo/src is built outside /repo and /verif (real directories
along the path of the changed file, symlinks for everything else), then

  1. the fast tests are run against it; a mutant whose pass/fail set differs from the unchanged tree is "killed by tests"
     and of no interest (the brief asks for changes that pass the existing tests);
  2. the property's quick check is run against it with a reduced number of runs; exit 1 = detected;
  3. for a mutant the check does not detect, the wide tests are run too (a last chance for the existing suite).

What is left - passes the tests, not detected - is written to the output file for review by hand: either the mutant is
equivalent / outside the property's statement, or it is a blind spot of the check.
Nothing is written into /repo; every overlay is removed as soon as its mutant is decided.
"""
import argparse
import ast
import json
import os
import random
import shutil
import subprocess
import sys
import tempfile
import time
import xml.etree.ElementTree as ET
from concurrent.futures import ThreadPoolExecutor

HERE = os.path.dirname(os.path.abspath(__file__))
PY = sys.executable
SRC = "/repo/src"

CMP = {ast.Lt: "<=", ast.LtE: "<", ast.Gt: ">=", ast.GtE: ">", ast.Eq: "!=", ast.NotEq: "==", ast.Is: "is not",
       ast.IsNot: "is", ast.In: "not in", ast.NotIn: "in"}


class Mutant:
    __slots__ = ("line", "col", "eline", "ecol", "kind", "new", "func")

    def __init__(self, node, kind, new, func):
        self.line, self.col, self.eline, self.ecol = node.lineno, node.col_offset, node.end_lineno, node.end_col_offset
        self.kind, self.new, self.func = kind, new, func


def enumerate_mutants(text, funcs=None):
    tree = ast.parse(text)
    out = []
    lines = text.splitlines(keepends=True)

    def seg(n):
        return ast.get_source_segment(text, n)

    def visit(node, func, in_raise):
        for child in ast.iter_child_nodes(node):
            f = func
            if isinstance(child, (ast.FunctionDef, ast.AsyncFunctionDef)):
                f = (func + "." if func and not func[0].islower() else "") + child.name if func else child.name
            elif isinstance(child, ast.ClassDef):
                f = child.name
            r = in_raise or isinstance(child, (ast.Raise, ast.Assert))
            if not r:
                mutate(child, f)
            visit(child, f, r)

    def mutate(n, f):
        if isinstance(n, ast.Compare) and len(n.ops) == 1 and type(n.ops[0]) in CMP:
            out.append(Mutant(n, "cmp", f"{seg(n.left)} {CMP[type(n.ops[0])]} {seg(n.comparators[0])}", f))
        elif isinstance(n, ast.BinOp) and isinstance(n.op, (ast.Add, ast.Sub)) and not isinstance(n.left, ast.Constant | ast.JoinedStr) \
                and not (isinstance(n.right, ast.Constant) and isinstance(n.right.value, str)):
            op = "-" if isinstance(n.op, ast.Add) else "+"
            out.append(Mutant(n, "arith", f"{seg(n.left)} {op} {seg(n.right)}", f))
        elif isinstance(n, ast.BoolOp) and len(n.values) == 2:
            op = "or" if isinstance(n.op, ast.And) else "and"
            out.append(Mutant(n, "bool", f"({seg(n.values[0])}) {op} ({seg(n.values[1])})", f))
        elif isinstance(n, ast.UnaryOp) and isinstance(n.op, ast.Not):
            out.append(Mutant(n, "not", f"({seg(n.operand)})", f))
        elif isinstance(n, ast.Constant) and isinstance(n.value, bool):
            out.append(Mutant(n, "const", str(not n.value), f))
        elif isinstance(n, ast.Constant) and isinstance(n.value, int) and not isinstance(n.value, bool):
            out.append(Mutant(n, "const", str(n.value + 1), f))
            if n.value > 0:
                out.append(Mutant(n, "const", str(n.value - 1), f))
        elif isinstance(n, (ast.If, ast.While)) or isinstance(n, ast.IfExp):
            t = n.test
            if not isinstance(t, (ast.Compare, ast.UnaryOp, ast.BoolOp)):
                out.append(Mutant(t, "negate", f"not ({seg(t)})", f))
            if isinstance(n, ast.If) and not n.orelse and isinstance(t, (ast.Compare, ast.BoolOp)):
                out.append(Mutant(t, "iftrue", "True", f))
        elif isinstance(n, ast.Expr) and isinstance(n.value, ast.Call):
            out.append(Mutant(n, "drop-call", "pass", f))
        elif isinstance(n, (ast.Assign, ast.AugAssign)):
            tgt = n.targets[0] if isinstance(n, ast.Assign) else n.target
            if isinstance(tgt, (ast.Attribute, ast.Subscript)) or isinstance(n, ast.AugAssign):
                out.append(Mutant(n, "drop-assign", "pass", f))
        elif isinstance(n, ast.Delete):
            out.append(Mutant(n, "drop-del", "pass", f))
        elif isinstance(n, ast.Continue):
            out.append(Mutant(n, "cont-break", "break", f))
        elif isinstance(n, ast.Break):
            out.append(Mutant(n, "break-cont", "continue", f))
        elif isinstance(n, ast.Slice):
            if n.lower is not None and n.upper is not None:
                out.append(Mutant(n, "slice", f"{seg(n.lower)}:", f))
        elif isinstance(n, ast.Return) and n.value is not None and isinstance(n.value, ast.Name | ast.Attribute) is False and isinstance(n.value, ast.Call) and \
                isinstance(n.value.func, ast.Attribute) and n.value.func.attr == "copy":
            out.append(Mutant(n.value, "nocopy", seg(n.value.func.value), f))
        elif isinstance(n, ast.Call) and isinstance(n.func, ast.Attribute) and n.func.attr == "copy" and not n.args:
            out.append(Mutant(n, "nocopy", seg(n.func.value), f))

    visit(tree, "", False)
    # drop mutants inside docstrings / decorators is implicit (no such nodes). Filter by function names
    if funcs:
        out = [m for m in out if m.func and any(m.func == x or m.func.endswith("." + x) or m.func.startswith(x + ".") for x in funcs)]
    # stable order, no duplicates
    seen, res = set(), []
    for m in sorted(out, key=lambda m: (m.line, m.col, m.kind, m.new)):
        k = (m.line, m.col, m.eline, m.ecol, m.new)
        if k not in seen:
            seen.add(k)
            res.append(m)
    return res


def apply(text, m):
    lines = text.splitlines(keepends=True)
    # byte offsets: ast columns are UTF-8 byte offsets; sources here are ASCII for the affected lines (checked)
    start = sum(len(l) for l in lines[:m.line - 1]) + m.col
    end = sum(len(l) for l in lines[:m.eline - 1]) + m.ecol
    return text[:start] + m.new + text[end:]


def overlay(rel, new_text):
    """scratch/src/biotite with real directories along rel and symlinks for every sibling"""
    root = tempfile.mkdtemp(prefix="verif-mut-")
    parts = ("biotite/" + rel).split("/")
    cur_src, cur_dst = SRC, os.path.join(root, "src")
    os.makedirs(cur_dst)
    for i, p in enumerate(parts):
        last = i == len(parts) - 1
        for name in os.listdir(cur_src):
            if name == "__pycache__":
                continue
            if name == p:
                continue
            os.symlink(os.path.join(cur_src, name), os.path.join(cur_dst, name))
        if last:
            with open(os.path.join(cur_dst, p), "w") as f:
                f.write(new_text)
        else:
            cur_src = os.path.join(cur_src, p)
            cur_dst = os.path.join(cur_dst, p)
            os.makedirs(cur_dst)
    return root, os.path.join(root, "src")


def pytest_sets(src, tests, n):
    env = dict(os.environ)
    env["PYTHONPATH"] = src
    env["PYTHONDONTWRITEBYTECODE"] = "1"
    d = tempfile.mkdtemp(prefix="junit-")
    x = os.path.join(d, "j.xml")
    try:
        p = subprocess.run([PY, "-m", "pytest", *tests.split(), "-q", "-p", "no:cacheprovider", f"--junitxml={x}", "-n", str(n),
                            "--timeout=300", "-x" if False else "-q"], cwd="/repo", env=env, capture_output=True, text=True, timeout=3000)
        passed, failed = set(), set()
        try:
            for tc in ET.parse(x).getroot().iter("testcase"):
                tid = f"{tc.get('classname')}::{tc.get('name')}"
                if any(c.tag in ("failure", "error") for c in tc):
                    failed.add(tid)
                elif not any(c.tag == "skipped" for c in tc):
                    passed.add(tid)
        except Exception:
            return None, {"collection-broken"}
        return passed, failed
    except subprocess.TimeoutExpired:
        return None, {"timeout"}
    finally:
        shutil.rmtree(d, ignore_errors=True)


def run_check(src, prop, runs, workers):
    env = dict(os.environ)
    env["PYTHONPATH"] = src
    env["VERIF_REPLAY_DIR"] = os.path.join(os.path.dirname(src), "replays")
    cmd = [PY, os.path.join(HERE, "check.py"), prop, "--tier", "quick", "--no-evidence", "--no-selfcheck", "--workers", str(workers)]
    if runs:
        cmd += ["--runs", str(runs)]
    try:
        p = subprocess.run(cmd, env=env, capture_output=True, text=True, timeout=1500)
    except subprocess.TimeoutExpired:
        return 3, ["timeout"], ""
    sigs = [l[len("violation signature: "):] for l in p.stdout.splitlines() if l.startswith("violation signature")]
    return p.returncode, sigs, p.stderr[-600:]


def decide(idx, m, rel, text, args, base_fast, base_wide):
    t0 = time.time()
    new_text = apply(text, m)
    rec = {"i": idx, "file": rel, "line": m.line, "func": m.func, "kind": m.kind,
           "old": text.splitlines()[m.line - 1].strip()[:160], "new": m.new[:160]}
    try:
        compile(new_text, rel, "exec")
    except SyntaxError:
        rec["verdict"] = "syntax"
        return rec
    root, src = overlay(rel, new_text)
    try:
        if args.fast_tests and not args.check_first:
            p, f = pytest_sets(src, args.fast_tests, 3)
            if p is None or p != base_fast[0] or f != base_fast[1]:
                rec["verdict"] = "killed-by-tests"
                return rec
        rc, sigs, err = run_check(src, args.prop, args.runs, args.workers)
        rec["check_rc"], rec["sigs"] = rc, sigs[:3]
        if rc == 1:
            rec["verdict"] = "detected"
            return rec
        if rc != 0:
            rec["verdict"] = "harness-error"
            rec["err"] = err
            return rec
        if args.fast_tests and args.check_first:
            p, f = pytest_sets(src, args.fast_tests, 3)
            if p is None or p != base_fast[0] or f != base_fast[1]:
                rec["verdict"] = "killed-by-tests"
                return rec
        if args.wide_tests:
            p, f = pytest_sets(src, args.wide_tests, 4)
            if p is None or p != base_wide[0] or f != base_wide[1]:
                rec["verdict"] = "killed-by-wide-tests"
                return rec
        rec["verdict"] = "SURVIVED"
        return rec
    finally:
        rec["secs"] = round(time.time() - t0, 1)
        shutil.rmtree(root, ignore_errors=True)


def main():
    ap = argparse.ArgumentParser()
    ap.add_argument("mode", choices=["list", "run"])
    ap.add_argument("prop")
    ap.add_argument("file")
    ap.add_argument("--funcs")
    ap.add_argument("--skip-funcs")
    ap.add_argument("--max", type=int, default=0)
    ap.add_argument("--sample-seed", type=int, default=1)
    ap.add_argument("--runs", type=int, default=0)
    ap.add_argument("--jobs", type=int, default=3)
    ap.add_argument("--workers", type=int, default=4)
    ap.add_argument("--fast-tests", default="")
    ap.add_argument("--wide-tests", default="")
    ap.add_argument("--out", default="")
    ap.add_argument("--lines", help="a:b restrict to this line range")
    ap.add_argument("--check-first", action="store_true", help="run the check before the fast tests (slow test files)")
    args = ap.parse_args()
    rel = args.file
    text = open(os.path.join(SRC, "biotite", rel)).read()
    muts = enumerate_mutants(text, args.funcs.split(",") if args.funcs else None)
    if args.skip_funcs:
        sk = args.skip_funcs.split(",")
        muts = [m for m in muts if not (m.func and any(m.func == x or m.func.endswith("." + x) for x in sk))]
    if args.lines:
        a, b = (int(x) for x in args.lines.split(":"))
        muts = [m for m in muts if a <= m.line <= b]
    if args.max and len(muts) > args.max:
        rnd = random.Random(args.sample_seed)
        muts = sorted(rnd.sample(muts, args.max), key=lambda m: (m.line, m.col))
    if args.mode == "list":
        for i, m in enumerate(muts):
            print(i, m.line, m.func, m.kind, "|", text.splitlines()[m.line - 1].strip()[:100], "=>", m.new[:80])
        print(len(muts), "mutants")
        return 0
    base_fast = pytest_sets(SRC, args.fast_tests, 6) if args.fast_tests else None
    base_wide = pytest_sets(SRC, args.wide_tests, 8) if args.wide_tests else None
    print(f"{len(muts)} mutants of {rel}; baseline fast tests: {base_fast and (len(base_fast[0]), len(base_fast[1]))} "
          f"wide: {base_wide and (len(base_wide[0]), len(base_wide[1]))}", flush=True)
    out = open(args.out, "a") if args.out else None
    counts = {}
    with ThreadPoolExecutor(args.jobs) as ex:
        futs = [ex.submit(decide, i, m, rel, text, args, base_fast, base_wide) for i, m in enumerate(muts)]
        for fu in futs:
            rec = fu.result()
            counts[rec["verdict"]] = counts.get(rec["verdict"], 0) + 1
            tag = rec["verdict"]
            print(f"[{rec['i']}] {tag:22s} L{rec.get('line')} {rec.get('func')} {rec.get('kind')}: {rec.get('old')} => {rec.get('new')} "
                  f"{rec.get('sigs') or ''} ({rec.get('secs')}s)", flush=True)
            if out and tag in ("SURVIVED", "harness-error"):
                out.write(json.dumps(rec) + "\n")
                out.flush()
    print("summary:", json.dumps(counts))
    return 0


if __name__ == "__main__":
    sys.exit(main())
