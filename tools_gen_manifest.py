#!/venv/bin/python
"""Regenerates MANIFEST.json from the tables below (keeps it valid and in one place)."""
import json, os
HERE = os.path.dirname(os.path.abspath(__file__))

CLAIMED = {
 "C20": dict(
  level_text="Seeded deterministic simulation of the real biotite.application wrappers (Application, LocalApp, MSAApp, ClustalOmegaApp, MuscleApp, Muscle5App, MafftApp plus two logic-free stub subclasses) against a virtual clock, in-process scripted child processes and fake MSA tools acting on the real temp files; a reference life-cycle model decides legality/outcome of every call, and cwd / temp files / child liveness / clean-up count are checked after every operation under launch, exit-code, hang, timeout, garbage-output, missing-tree and clock-jump faults, interrupts of the caller, SIGTERM-ignoring programs, pipe capacity, undecodable and early program output, a disk that is full while the input files are written, and arguments Popen itself refuses; a third phase repeats sampled histories against real child processes. Sampling, not proof: a clean batch is evidence over the explored seeds.",
  level_note="Trusted: SimPopen models Popen's poll/communicate/kill semantics; fake tools act atomically at their exit instant; the life-cycle table of DESIGN.md Appendix A is the documented life cycle. External binaries themselves are stubs.",
  technique="deterministic simulation with fault injection (virtual clock, simulated child processes, seeded schedule and faults, reference model, ddmin replay)",
  design_ref="4.1, Appendix A"),
 "C06": dict(
  level_text="Seeded operation-and-restart histories on one CIFFile / BinaryCIFFile treated as a three-level key/value store: mapping operations, partial touches (lazy parsing), rejected operations and restarts from the durable serialised form through simulated media (memory, stream, path, temp-file wrapper, TextIOWrapper), checked step by step against a dict model; cell values come from an awkward-string pool and random compositions of awkward atoms at every table position. Sampling, not proof.",
  level_note="Trusted: the dict model; value domain = printable strings without an embedded line break followed by ';' (inexpressible in CIF 1.1); identifier-like names; present cells are never '.' or '?'. Storage faults other than short reads are not injected (the code has no reaction to them, see DESIGN 7).",
  technique="deterministic simulation (seeded histories with restart-from-durable-state, rejected-operation faults, reference model, ddmin replay)",
  design_ref="4.4, Appendix B"),
 "C12": dict(
  level_text="Seeded edit/restart histories on FastaFile, FastqFile, GenBankFile and GFFFile objects (text = durable state, incrementally maintained index = volatile state): mapping/list edits, rejected operations, typed puts/gets through the converters, streaming read_iter/write_iter and restarts through simulated media; after every step the live view must equal a re-parse of the object's own text (I1) and the model (I2), and typed values must read back unchanged after a restart (I3). Knobs (chars_per_line, FASTQ offset) are randomised per run. Sampling, not proof.",
  level_note="Trusted: the per-format models; value domains restricted to what each format can express (see evidence assumptions). Storage faults are not injected (no reacting code, DESIGN 7).",
  technique="deterministic simulation (seeded edit histories with restart-from-durable-text, rejected-operation faults, text/index consistency invariant, reference model, ddmin replay)",
  design_ref="4.5"),
 "C02": dict(
  level_text="Seeded operation histories over a register file of BondList objects (compiled extension as on disk) refined step by step against a dict model of undirected typed bonds; every view (array, set, per-atom and all-atom tables, adjacency and type matrices, graph, membership, equality, counts) is compared after every step. Out-of-range atom indices are injected as faults; every operation carrying an out-of-range scalar index first runs in a one-operation probe child forked from the current state, so process death, silent acceptance and corruption are attributed to the operation and the history continues. Sampling, not proof.",
  level_note="Trusted: the dict model. Self-bonds and wrong-length masks are outside the generated domain. Four genuine defects in Cython source (cannot be rebuilt here; scalar index below -n, non-contiguous mask, read-only mask, small-dtype index array) are listed in known_findings.json and reported as KNOWN-FINDING; any other disagreement is a VIOLATION.",
  technique="deterministic simulation (seeded histories, out-of-range-index fault injection with fork-probe crash containment, reference model, ddmin replay)",
  design_ref="4.3, 3.3"),
 "C01": dict(
  level_text="Seeded operation histories over a register file of live Atom / AtomArray / AtomArrayStack objects refined after every step, for every register, against a plain list-of-atoms model (annotation values per atom, coordinates per model, per-model boxes, bonds as position pairs): indexing of every kind incl. negative and two-dimensional stack indices, concatenate/+, stack, repeat, from_template, array(), atom/model deletion, element assignment, annotation edits, coord/box/bonds assignment, copy() and in-place writes through one of two holders (a copy must never change), rejected operations. Structural coherence (lengths/depths of annotations, coord, box, bonds) and biotite's own == against a container rebuilt from the model are checked too. Sampling, not proof.",
  level_note="Trusted: the list-of-atoms model (numpy defines one-axis index validity). String annotation values stay within dtype widths; duplicate index arrays only without bonds; objects derived by anything but copy() may share buffers (alias groups are re-synchronised, not checked). One genuine defect of the compiled bond list seen through atom-axis indexing (read-only boolean mask on a bonded object) is listed in known_findings.json and reported as KNOWN-FINDING.",
  technique="deterministic simulation (seeded histories over a register file with a second holder, rejected-operation faults, reference model, ddmin replay)",
  design_ref="4.2"),
}

NA = {
 "C03": "pure functions of alphabet/symbols/codon table (encode/decode/translate); no schedule, clock, I/O fault or operation history for a simulator to own",
 "C04": "structure -> CIF/BinaryCIF -> structure is a one-shot pure round trip (single write, single read, no retry/recovery path); the container/lazy-parse history part of the same classes is simulated under C06",
 "C05": "decode(encode(x)) on arrays: pure function, no state, time, I/O or interleaving",
 "C07": "PDB round trip and column layout: pure function of the structure; file written in one piece",
 "C08": "optimal pairwise alignment: pure function of sequences, matrix and penalties",
 "C09": "heuristic/banded/seeded alignment: pure function of its inputs",
 "C10": "k-mer tables are immutable after construction; queries and pickling are pure value computations",
 "C11": "alignment conversions and progressive MSA are deterministic pure computations",
 "C13": "slicing annotations / annotated sequences: pure function of annotation and slice",
 "C14": "cell list is immutable after construction; queries are pure",
 "C15": "geometry invariances: numerical pure functions of coordinate arrays",
 "C16": "superimposition: numerical pure function of coordinate arrays",
 "C17": "segmentation / connected components: pure functions of annotation arrays or the bond graph (the known recursion-depth crash is input-size driven, not fault or schedule driven)",
 "C18": "MOL/SDF/RDKit round trips: pure one-shot (de)serialisation",
 "C19": "UPGMA / neighbour joining / Newick: pure functions of a distance matrix or tree",
}

def main():
    checks = []
    for pid in sorted(CLAIMED):
        c = CLAIMED[pid]
        checks.append({
            "property_id": pid,
            "quick_cmd": f"/venv/bin/python /verif/check.py {pid} --tier quick",
            "thorough_cmd": f"/venv/bin/python /verif/check.py {pid} --tier thorough",
            "evidence_file": f"/verif/evidence/{pid}.json",
            "replay_cmd_template": f"/venv/bin/python /verif/check.py {pid} --replay {{path}}",
            "engine": "dst",
            "level_claimed": {"category": "exploration", "text": c["level_text"], "design_ref": c["design_ref"]},
            "level_note": c["level_note"],
            "technique": c["technique"],
        })
    na = [{"property_id": k, "reason": v} for k, v in sorted(NA.items()) if k not in CLAIMED]
    m = {
        "version": 1,
        "setup_cmd": "/venv/bin/python /verif/setup_check.py",
        "hooks": {
            "guard": "BIOTITE_VERIF",
            "enable": "no source hook exists: every seam the simulator needs is a module-level name (application.time, localapp.Popen/subprocess/chdir/getcwd, msaapp/clustalo/muscle NamedTemporaryFile, tempfile.tempdir) rebound by /verif/sim for the duration of a run; BIOTITE_VERIF is reserved and unused",
            "baseline_off_cmd": "cd /repo && /venv/bin/python -m pytest -ra -q -p no:cacheprovider --timeout=900 --continue-on-collection-errors",
            "source_commits": [],
            "add_only": True,
        },
        "engines": [{
            "name": "dst",
            "path": "/verif/sim",
            "serves_properties": sorted(CLAIMED),
            "kind_free_text": "seeded deterministic simulation: one PRNG per run drives workload, schedule (virtual clock, child-exit placement, wrapper interleaving) and faults; reference models checked after every step; ddmin-minimised replay files",
        }],
        "checks": checks,
        "not_applicable": na,
        "notes": "See DESIGN.md. Technique family: deterministic simulation with fault injection. Properties without any schedule/clock/IO/fault/history dimension are listed as not_applicable.",
    }
    with open(os.path.join(HERE, "MANIFEST.json"), "w") as f:
        json.dump(m, f, indent=1)
        f.write("\n")

if __name__ == "__main__":
    main()
