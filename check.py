#!/venv/bin/python
"""Entry point of every registered check.

    check.py <PROP> --tier quick|thorough      run the seeded simulation batch, write evidence/<PROP>.json
    check.py <PROP> --replay <file>            re-execute a minimised replay file in a fresh process
    check.py <PROP> --digests a:b              print run digests of run indices a..b-1 (determinism self-test)

exit 0: property held on everything explored (known findings are printed as KNOWN-FINDING lines)
exit 1: a line 'VIOLATION property=<id> replay=<path>' was printed
exit 2: the harness itself failed (never reported as a violation)
"""
import argparse
import importlib
import json
import os
import shutil
import subprocess
import sys
import tempfile
import time

HERE = os.path.dirname(os.path.abspath(__file__))
DEFAULT_SEED = 20260927
BUILD_INFO = ([], [])


def _reexec():
    want = {"PYTHONHASHSEED": os.environ.get("VERIF_HASHSEED", "0"), "OMP_NUM_THREADS": "1",
            "OPENBLAS_NUM_THREADS": "1", "MKL_NUM_THREADS": "1", "PYTHONDONTWRITEBYTECODE": "1"}
    if any(os.environ.get(k) != v for k, v in want.items()):
        env = dict(os.environ)
        env.update(want)
        os.execve(sys.executable, [sys.executable] + sys.argv, env)


def biotite_root():
    """Directory of the biotite package that will be imported, without importing it."""
    import importlib.util

    spec = importlib.util.find_spec("biotite")
    return os.path.dirname(spec.origin)


def rebuild_extensions():
    """'Rebuild from the working tree': Python sources are imported live (editable install). For every Cython
    extension: if Cython is importable, regenerate the C file from a newer .pyx; if the C file is newer than the
    built module, recompile it with gcc; if the .pyx is newer than everything and cannot be regenerated, report it
    as stale (the check then runs against the module on disk and says so in the evidence)."""
    import sysconfig

    root = biotite_root()
    stale, rebuilt = [], []
    try:
        import Cython  # noqa: F401
        have_cython = True
    except ImportError:
        have_cython = False
    for d, _, files in os.walk(root):
        for f in files:
            if not f.endswith(".pyx"):
                continue
            base = f[:-4]
            pyx = os.path.join(d, f)
            cfile = os.path.join(d, base + ".c")
            sos = [x for x in files if x.startswith(base + ".") and x.endswith(".so")]
            so = os.path.join(d, sos[0]) if sos else os.path.join(d, base + sysconfig.get_config_var("EXT_SUFFIX"))
            so_m = os.path.getmtime(so) if os.path.exists(so) else 0
            c_m = os.path.getmtime(cfile) if os.path.exists(cfile) else 0
            if os.path.getmtime(pyx) > max(so_m, c_m) + 1:
                if have_cython:
                    subprocess.run([sys.executable, "-m", "cython", "-3", pyx, "-o", cfile], check=False, capture_output=True)
                    c_m = os.path.getmtime(cfile) if os.path.exists(cfile) else 0
                else:
                    stale.append(os.path.relpath(pyx, root))
            if c_m > so_m + 1:
                import numpy

                cmd = ["gcc", "-O1", "-shared", "-fPIC", "-w", "-I" + sysconfig.get_paths()["include"], "-I" + numpy.get_include(),
                       cfile, "-o", so + ".tmp"]
                p = subprocess.run(cmd, capture_output=True, text=True)
                if p.returncode == 0:
                    os.replace(so + ".tmp", so)
                    rebuilt.append(os.path.relpath(so, root))
                else:
                    stale.append(os.path.relpath(cfile, root) + " (gcc failed)")
    return stale, rebuilt


def load(prop):
    sys.path.insert(0, HERE)
    return importlib.import_module(f"sim.props.{prop.lower()}")


def main():
    ap = argparse.ArgumentParser()
    ap.add_argument("prop")
    ap.add_argument("--tier", default=os.environ.get("VERIF_TIER", "quick"))
    ap.add_argument("--replay")
    ap.add_argument("--digests")
    ap.add_argument("--runs", type=int)
    ap.add_argument("--start", type=int, default=0)
    ap.add_argument("--workers", type=int, default=int(os.environ.get("VERIF_WORKERS", "16")))
    ap.add_argument("--no-evidence", action="store_true")
    ap.add_argument("--evidence-out", help="write the evidence JSON to this path instead of evidence/<PROP>.json")
    ap.add_argument("--no-selfcheck", action="store_true")
    ap.add_argument("--show", type=int, help="print the event log of one run index and exit")
    args = ap.parse_args()
    _reexec()
    seed = int(os.environ.get("VERIF_SEED", DEFAULT_SEED))
    global BUILD_INFO
    BUILD_INFO = ([], [])
    if not (args.digests or args.show is not None):
        BUILD_INFO = rebuild_extensions()  # before biotite is imported
        if BUILD_INFO[1]:
            print("rebuilt extension modules from newer C files:", ", ".join(BUILD_INFO[1]))
        if BUILD_INFO[0]:
            print("NOTE: stale extension modules (source newer than the built module, cannot be regenerated here):", ", ".join(BUILD_INFO[0]))
    from sim import core

    mod = load(args.prop)
    prop = mod.PROP

    if args.digests:
        a, b = (int(x) for x in args.digests.split(":"))
        out = {}
        agg = core.Agg()
        core.DIGEST_SAMPLE = b
        for i in range(a, b):
            core.run_one(mod, seed, i, agg)
        if agg.harness:
            print(agg.harness[0][1], file=sys.stderr)
            return 2
        print(json.dumps({str(k): v for k, v in agg.digests.items()}))
        return 0

    if args.show is not None:
        spec = core.make_spec(mod, seed, args.show)
        print(json.dumps(spec, indent=1, default=core._json_default))
        out = core.execute_isolated(mod, spec, keep_log=10000)
        for line in out.get("log") or []:
            print(line)
        print({k: v for k, v in out.items() if k not in ("log",)})
        return 0

    if args.replay:
        return replay(core, mod, args.replay)

    n = args.runs or mod.TIERS[args.tier]
    t0 = time.monotonic()
    scratch = tempfile.mkdtemp(prefix=f"verif-{prop}-")
    try:
        return batch(core, mod, prop, seed, n, args, scratch, t0)
    finally:
        shutil.rmtree(scratch, ignore_errors=True)


def replay(core, mod, path):
    with open(path) as f:
        rep = json.load(f)
    spec = rep["spec"]
    if rep.get("phase"):
        mod_exec = mod.PHASE_MODULES[rep["phase"]]
    else:
        mod_exec = mod
    tail = ""
    if isinstance(spec, dict) and "sequence" in spec:
        mod_exec = core.SequenceModule(mod_exec)  # several runs, one process: state kept between independent objects
        tail = ":depends-on-earlier-runs-in-the-same-process"
    out = core.execute_isolated(mod_exec, spec, keep_log=10000)
    sig = core.outcome_sig(out)
    if sig is not None:
        sig += tail
    for line in out.get("log") or []:
        print("  " + line)
    if out["outcome"] in ("harness", "invalid"):
        text = out.get("trace") or out.get("why") or ""
        print(text, file=sys.stderr)
        if str(rep.get("signature", "")).startswith("harness-exception:"):
            # recorded as such by the batch (see there): the harness cannot interpret what the implementation did
            print(f"signature: {rep['signature']} (exception inside the harness, reproducible for this spec)")
            print(f"VIOLATION property={mod.PROP} replay={path}")
            return 1
        return 2
    for fid, text in out.get("known") or []:
        print(f"KNOWN-FINDING: property={mod.PROP} {fid}: {text}")
    if sig is None:
        print(f"replay {path}: no violation on this tree (recorded: {rep['signature']})")
        return 0
    v = out.get("violation") or {}
    k = core.match_known(mod.PROP, sig, v.get("detail"))
    if k:
        print(f"KNOWN-FINDING: property={mod.PROP} {k['id']}: {k['text']}")
        return 0
    print(f"signature: {sig}  (recorded: {rep['signature']}; same={sig == rep['signature']})")
    print(f"detail: {json.dumps(v.get('detail'), default=core._json_default)[:2000]}")
    if rep.get("digest") and out.get("digest"):
        print(f"event-log digest same as recorded: {rep['digest'] == out['digest']}")
    print(f"VIOLATION property={mod.PROP} replay={path}")
    return 1


def batch(core, mod, prop, seed, n, args, scratch, t0):
    wall_cap = getattr(mod, "WALL_CAP", {}).get(args.tier)
    total, truncated = core.run_many(mod, seed, n, args.workers, scratch, wall_cap=wall_cap, start_index=args.start)
    extra = getattr(mod, "extra_phase", None)
    extra_info = None
    if extra is not None and (total.violations or total.harness) and not os.environ.get("VERIF_ALL_PHASES"):
        # the sampled phase already has something to report: the further phases (systematic prefix, real processes) would
        # only add to the bill - with a defect that makes calls block, every hung run costs its stall timeout
        extra_info = {"skipped": "the sampled phase already reported violations; further phases not run"}
    elif extra is not None:
        extra_info = extra(args.tier, seed, total, args.workers, scratch)
    wall_runs = time.monotonic() - t0

    # ---- determinism sample: same seeds in a fresh interpreter under another hash seed ----------
    det = {"checked": 0, "ok": True}
    if not args.no_selfcheck and total.digests and args.start == 0:
        env = dict(os.environ)
        env["PYTHONHASHSEED"] = "4242"
        env["VERIF_HASHSEED"] = "4242"
        env["VERIF_SEED"] = str(seed)
        b = min(core.DIGEST_SAMPLE, n)
        p = subprocess.run([sys.executable, os.path.join(HERE, "check.py"), prop, "--digests", f"0:{b}"],
                           env=env, capture_output=True, text=True, timeout=600)
        if p.returncode != 0:
            print(p.stdout[-2000:], p.stderr[-4000:], file=sys.stderr)
            print("HARNESS-ERROR: determinism sample could not run", file=sys.stderr)
            return 2
        other = json.loads(p.stdout.strip().splitlines()[-1])
        det["checked"] = len(other)
        for k, v in other.items():
            if total.digests.get(int(k)) != v:
                det["ok"] = False
                det["first_divergence"] = int(k)
                break

    # ---- violations: known findings vs new ones ------------------------------------------------
    known_seen = dict(total.known)
    new_violations = []
    for idx, v in sorted(total.violations, key=lambda t: t[0]):
        k = core.match_known(prop, v["sig"], v.get("detail"))
        if k:
            known_seen.setdefault(k["id"], (k["text"], idx))
        else:
            new_violations.append((idx, v))
    # every listed known finding is probed directly through its committed replay, so that its line is printed on
    # every run as long as the defect is there (and disappears once it has been repaired), whether or not the
    # sampled histories happened to meet it
    for k in core.known_findings(prop):
        if k.get("status") != "known" or k["id"] in known_seen:
            continue
        for rp in (k.get("replay") or "").split():
            try:
                with open(os.path.join(HERE, rp)) as f:
                    rep = json.load(f)
            except OSError:
                continue
            out = core.execute_isolated(mod, rep["spec"])
            sig = core.outcome_sig(out)
            hit = any(fid == k["id"] for fid, _ in (out.get("known") or []))
            if not hit and sig is not None:
                m = core.match_known(prop, sig, (out.get("violation") or {}).get("detail"))
                hit = m is not None and m["id"] == k["id"]
            if hit:
                known_seen[k["id"]] = (k["text"], "replay " + rp)
                break
    for fid in sorted(known_seen):
        text, idx = known_seen[fid]
        print(f"KNOWN-FINDING: property={prop} {fid}: {text} (first seen in run {idx})")

    replay_paths = []
    seen_sigs = set()
    collateral = []
    tried_predecessors = []  # the (expensive) attempt to reproduce a run together with its predecessors is made once
    for idx, v in new_violations:
        if v["sig"] in seen_sigs or (collateral and v["sig"].startswith(("process-died", "process-hung"))):
            continue
        seen_sigs.add(v["sig"])
        if len(replay_paths) >= 3:
            break
        phase = v.get("phase")
        vmod = mod.PHASE_MODULES[phase] if phase else mod
        spec = core.make_spec(vmod, seed, idx)
        first = core.execute_isolated(vmod, spec)
        sig = core.outcome_sig(first)
        if sig is None and not tried_predecessors:
            # clean in a process of its own: does it come back after the runs that preceded it in its worker process?
            # Then the code under test keeps state between independent objects (module- or class-level), which is what
            # the violation is about; the replay is the sequence of specs.
            tried_predecessors.append(idx)
            rep = core.reproduce_with_predecessors(vmod, seed, idx, v["sig"], start_index=args.start)
            if rep is not None:
                seq_spec, out = rep
                sig2 = core.outcome_sig(out) + ":depends-on-earlier-runs-in-the-same-process"
                rdir = os.environ.get("VERIF_REPLAY_DIR") or os.path.join(HERE, "replays")
                os.makedirs(rdir, exist_ok=True)
                path = os.path.join(rdir, f"{prop}-{seed}-{idx}.json")
                with open(path, "w") as f:
                    json.dump({"property": prop, "verif_seed": seed, "run_index": idx, "signature": sig2, "phase": phase,
                               "detail": (out.get("violation") or {}).get("detail"), "original_ops": len(spec["ops"]),
                               "minimised_ops": len(spec["ops"]), "runs_in_sequence": seq_spec["indices"], "digest": None,
                               "spec": seq_spec, "event_log": out.get("log")}, f, indent=1, default=core._json_default)
                replay_paths.append((path, sig2, idx))
                continue
        if sig is None and v["sig"].startswith(("process-died", "process-hung")):
            # a worker died or hung at this run, but the run is clean in a process of its own: the worker's memory was
            # damaged by an earlier run of the same process (compiled code). That earlier run reports its own
            # violation; this entry is kept aside and only counts as a harness error if nothing else is found
            collateral.append((idx, v["sig"], first["outcome"]))
            seen_sigs.discard(v["sig"])
            continue
        if sig is None:
            print(f"HARNESS-ERROR: run {idx} reported {v['sig']} in the batch but not when re-executed alone "
                  f"(outcome={first['outcome']})", file=sys.stderr)
            return 2
        if getattr(vmod, "simplify", None) is None and hasattr(mod, "simplify"):
            vmod.simplify = mod.simplify
        budget = 0 if os.environ.get("VERIF_NO_MINIMISE") else getattr(mod, "SHRINK_BUDGET", 300)  # 0: screening runs of tools_mutate.py
        small = core.minimise(vmod, spec, sig, isolated=True, budget=budget) if budget else spec
        fin = core.execute_isolated(vmod, small, keep_log=10000)
        rdir = os.environ.get("VERIF_REPLAY_DIR") or os.path.join(HERE, "replays")
        os.makedirs(rdir, exist_ok=True)
        path = os.path.join(rdir, f"{prop}-{seed}-{idx}.json")
        with open(path, "w") as f:
            json.dump({"property": prop, "verif_seed": seed, "run_index": idx, "signature": sig, "phase": phase,
                       "detail": (fin.get("violation") or {}).get("detail"),
                       "original_ops": len(spec["ops"]), "minimised_ops": len(small["ops"]),
                       "digest": fin.get("digest"), "spec": small, "event_log": fin.get("log")},
                      f, indent=1, default=core._json_default)
        replay_paths.append((path, sig, idx))

    if collateral and not replay_paths:
        idx, vsig, outcome = collateral[0]
        print(f"HARNESS-ERROR: run {idx} reported {vsig} in the batch but not when re-executed alone "
              f"(outcome={outcome}) and no other run of the batch reports a violation", file=sys.stderr)
        return 2
    for idx, vsig, outcome in collateral[:3]:
        print(f"NOTE: run {idx} reported {vsig} in the batch but is clean in a process of its own; attributed to memory "
              f"damage left behind by an earlier violating run of the same worker process")
    if total.harness and not replay_paths:
        # An exception inside the harness's own code. If it reproduces for the same spec in a process of its own it is a
        # function of (spec, code under test): the implementation did something the model cannot even interpret (returned
        # None where an object is documented, ...). On the unchanged tree no spec does that - it would be a broken check
        # either way - so it is reported as a violation with its replay; what does not reproduce stays a harness error.
        for h in total.harness[:3]:
            idx, tr = h[0], h[1]
            phase = h[2] if len(h) > 2 else None
            if idx is None:
                continue
            vmod = mod.PHASE_MODULES[phase] if phase else mod
            try:
                spec = core.make_spec(vmod, seed, idx)
            except Exception:  # noqa: BLE001
                continue
            out = core.execute_isolated(vmod, spec, keep_log=10000)
            if out["outcome"] not in ("harness", "invalid"):
                continue
            text = (out.get("trace") or out.get("why") or "").strip()
            last = text.splitlines()[-1] if text else "?"
            sig = "harness-exception:" + (last.split(":")[0].strip() if out["outcome"] == "harness" else "InvalidSpec")
            rdir = os.environ.get("VERIF_REPLAY_DIR") or os.path.join(HERE, "replays")
            os.makedirs(rdir, exist_ok=True)
            path = os.path.join(rdir, f"{prop}-{seed}-{idx}.json")
            with open(path, "w") as f:
                json.dump({"property": prop, "verif_seed": seed, "run_index": idx, "signature": sig, "phase": phase,
                           "detail": {"trace": text[-3000:]}, "original_ops": len(spec["ops"]), "minimised_ops": len(spec["ops"]),
                           "digest": None, "spec": spec, "event_log": None}, f, indent=1, default=core._json_default)
            print(f"HARNESS-EXCEPTION in run {idx}, reproducible for this spec (reported as a violation):\n{text[-2500:]}", file=sys.stderr)
            replay_paths.append((path, sig, idx))
            new_violations.append((idx, {"sig": sig, "detail": {"trace": text[-500:]}, "step": None}))
            break
    wall = time.monotonic() - t0
    stale, rebuilt = BUILD_INFO
    if not args.no_evidence:
        write_evidence(core, mod, prop, seed, args, total, truncated, det, known_seen, new_violations,
                       replay_paths, wall, wall_runs, stale, extra_info)

    if total.harness and not replay_paths:
        idx, tr = total.harness[0][0], total.harness[0][1]
        print(f"HARNESS-ERROR in run {idx} ({len(total.harness)} total):\n{tr}", file=sys.stderr)
        return 2
    if not det["ok"]:
        print(f"HARNESS-ERROR: run {det.get('first_divergence')} is not deterministic across interpreters",
              file=sys.stderr)
        return 2
    if truncated and not replay_paths:
        print(f"HARNESS-ERROR: batch stopped before all runs completed ({truncated})", file=sys.stderr)
        return 2
    print(f"{prop} {args.tier}: runs={total.runs} ops={total.ops} distinct_nontrivial_histories={len(total.hist)} "
          f"features={len(total.features)} known_findings={len(known_seen)} violations={len(new_violations)} "
          f"wall={wall:.1f}s")
    if replay_paths:
        for path, sig, idx in replay_paths:
            print(f"violation signature: {sig} (run {idx})")
            print(f"VIOLATION property={prop} replay={path}")
        return 1
    return 0


def write_evidence(core, mod, prop, seed, args, total, truncated, det, known_seen, new_violations,
                   replay_paths, wall, wall_runs, stale, extra_info):
    faults = {k[6:]: v for k, v in sorted(total.stats.items()) if k.startswith("fault:")}
    probes = {k[6:]: v for k, v in sorted(total.stats.items()) if k.startswith("probe:")}
    ops = {k[3:]: v for k, v in sorted(total.stats.items()) if k.startswith("op:")}
    other = {k: v for k, v in sorted(total.stats.items()) if not k.startswith(("fault:", "probe:", "op:"))}
    zero_probes = [p for p in getattr(mod, "PROBES", []) if probes.get(p, 0) == 0]
    ev = {
        "property_id": prop,
        "tier": args.tier if args.tier in ("quick", "thorough") else "quick",
        "seed": seed,
        "level": "exploration",
        "coverage": {
            "evaluations": total.runs,
            "distinct_nontrivial": len(total.hist) + len(total.features),
            "distinct_nontrivial_histories": len(total.hist),
            "distinct_step_classes": len(total.features),
            "rule": mod.RULE,
            "samples": sorted(total.samples, key=lambda s: s["run_index"])[:3] or [{"note": "no sample"}],
            "operations_executed": total.ops,
            "operations_by_kind": ops,
            "faults_fired": faults,
            "probes": probes,
            "probes_at_zero": zero_probes,
            "other_counters": other,
            "simulated_seconds": round(total.sim_time, 3),
            "runs_per_hour": int(total.runs / max(wall_runs, 1e-6) * 3600),
            "seeds_per_hour": int(total.runs / max(wall_runs, 1e-6) * 3600),
            "workers": args.workers,
            "components": mod.COMPONENTS,
            "determinism_sample": det,
            "stale_extensions": stale,
            "rebuilt_extensions": BUILD_INFO[1],
            "truncated": truncated or False,
            "known_findings_seen": {k: {"text": v[0], "first_run_index": v[1]} for k, v in sorted(known_seen.items())},
            "violation_signatures": sorted({v["sig"] for _, v in new_violations}),
            "replay_files": [p for p, _, _ in replay_paths],
            "harness_errors": len(total.harness),
            "extra_phase": extra_info,
            "exhaustive": False,
        },
        "assumptions": mod.ASSUMPTIONS,
        "wall_s": round(wall, 2),
        "violations": len(new_violations),
    }
    out = args.evidence_out or os.path.join(HERE, "evidence", f"{prop}.json")
    os.makedirs(os.path.dirname(os.path.abspath(out)), exist_ok=True)
    tmp = out + ".tmp"
    with open(tmp, "w") as f:
        json.dump(ev, f, indent=1, default=core._json_default)
        f.write("\n")
    os.replace(tmp, out)


if __name__ == "__main__":
    sys.exit(main())
