#!/venv/bin/python
"""Proving the simulator itself.

    selftest.py determinism [N] [props...]   N seeds per property, each run in 4 fresh interpreters
                                             (PYTHONHASHSEED 0 / 4242 x two chunkings); all digests must agree
    selftest.py sensitivity [ids...]         apply each listed defect to a scratch copy of /repo/src/biotite,
                                             run the quick check against the copy, expect a VIOLATION; delete the copy
    selftest.py seeded [ids...]              the same for the kept sub-agent changes under /verif/seeded/<id>/patch.diff

Nothing is written into /repo. Scratch copies live under a mkdtemp directory and are removed afterwards.
"""
import json
import os
import shutil
import subprocess
import sys
import tempfile
import time

HERE = os.path.dirname(os.path.abspath(__file__))
PY = sys.executable
PROPS = ["C20", "C01", "C02", "C06", "C12"]
FIRST_RUNS = {"C20": 3000, "C01": 3000, "C02": 3000, "C06": 4000, "C12": 4000}


def digests(prop, a, b, hashseed, extra_env=None):
    env = dict(os.environ)
    env.update({"PYTHONHASHSEED": str(hashseed), "VERIF_HASHSEED": str(hashseed)})
    env.update(extra_env or {})
    p = subprocess.run([PY, os.path.join(HERE, "check.py"), prop, "--digests", f"{a}:{b}"], env=env, capture_output=True, text=True, timeout=3600)
    if p.returncode != 0:
        raise RuntimeError(f"{prop} digests {a}:{b} failed:\n{p.stderr[-3000:]}")
    return json.loads(p.stdout.strip().splitlines()[-1])


def determinism(n, props):
    from concurrent.futures import ThreadPoolExecutor

    bad = 0
    for prop in props:
        t0 = time.time()
        jobs = []
        # configuration A: one interpreter for all n seeds, hash seed 0
        # configuration B: hash seed 4242, split into 8 interpreters (different neighbours in the same process)
        # configuration C: hash seed 99, reversed halves (second half first)
        with ThreadPoolExecutor(16) as ex:
            fa = [ex.submit(digests, prop, 0, n, 0)]
            step = max(1, n // 8)
            fb = [ex.submit(digests, prop, s, min(n, s + step), 4242) for s in range(0, n, step)]
            fc = [ex.submit(digests, prop, n // 2, n, 99), ex.submit(digests, prop, 0, n // 2, 99)]
            fd = [ex.submit(digests, prop, 0, n, 0)]
            A = {}
            for f in fa:
                A.update(f.result())
            B = {}
            for f in fb:
                B.update(f.result())
            C = {}
            for f in fc:
                C.update(f.result())
            D = {}
            for f in fd:
                D.update(f.result())
        diverged = [k for k in A if not (A[k] == B.get(k) == C.get(k) == D.get(k))]
        print(f"determinism {prop}: {len(A)} seeds x 4 executions, diverging={len(diverged)} ({time.time() - t0:.1f}s)")
        if diverged:
            print("  first diverging run indices:", diverged[:10])
            bad += 1
    return 1 if bad else 0


# ------------------------------------------------------------------------------------------------
# sensitivity: defects of the kind that still pass the existing test suite
# ------------------------------------------------------------------------------------------------

MUTATIONS = [
    # id, property, file (relative to src/biotite), old, new
    ("c20-cancel-no-cleanup", "C20", "application/application.py",
     "        self._state = AppState.CANCELLED\n        self.clean_up()\n\n    def get_app_state",
     "        self._state = AppState.CANCELLED\n\n    def get_app_state"),
    ("c20-get-alignment-unguarded", "C20", "application/msaapp.py",
     "    @requires_state(AppState.JOINED)\n    def get_alignment(self):", "    def get_alignment(self):"),
    ("c20-order-swapped", "C20", "application/msaapp.py",
     "            out_seq_str[i] = seq_dict[str(i)]", "            out_seq_str[i] = list(seq_dict.values())[i]"),
    ("c20-no-chdir-back", "C20", "application/localapp.py",
     "        finally:\n            # Restore the working directory, even if the launch failed\n            chdir(cwd)",
     "        finally:\n            pass"),
    ("c20-kill-only-when-running", "C20", "application/localapp.py",
     "        if self.get_app_state() == AppState.CANCELLED and self._process is not None:\n            self._process.kill()",
     "        if self.get_app_state() == AppState.RUNNING and self._process is not None:\n            self._process.kill()"),
    ("c20-double-cleanup-on-timeout", "C20", "application/localapp.py",
     "        except TimeoutExpired:\n            self.cancel()", "        except TimeoutExpired:\n            self.cancel()\n            self.clean_up()"),
    ("c20-web-rules-inverted", "C20", "application/webapp.py",
     "        if self._obey_rules:\n            if msg is None:", "        if not self._obey_rules:\n            if msg is None:"),
    ("c20-web-custom-message-dropped", "C20", "application/webapp.py",
     "                raise RuleViolationError(msg)", "                raise RuleViolationError(\"The user guidelines would be violated\")"),
    ("c01-del-forgets-bonds", "C01", "structure/atoms.py",
     "                self._bonds = self._bonds[mask]\n        else:\n            raise TypeError(f\"Index must be integer",
     "                pass\n        else:\n            raise TypeError(f\"Index must be integer"),
    ("c01-getitem-drops-model-box", "C01", "structure/atoms.py",
     "            new_stack._coord = self._coord[index]\n            if self._box is not None:\n                new_stack._box = self._box[index]",
     "            new_stack._coord = self._coord[index]"),
    ("c01-copy-shares-coord", "C01", "structure/atoms.py",
     "        clone._coord = np.copy(self._coord)", "        clone._coord = self._coord"),
    ("c01-copy-shares-annotation", "C01", "structure/atoms.py",
     "            clone._annot[name] = np.copy(self._annot[name])", "            clone._annot[name] = self._annot[name]"),
    ("c06-escape-no-blank-quote", "C06", "structure/io/pdbx/cif.py",
     "    elif \" \" in value:\n        return \"'\" + value + \"'\"", "    elif \"  \" in value:\n        return \"'\" + value + \"'\""),
    ("c06-getitem-no-cache", "C06", "structure/io/pdbx/cif.py",
     "            # Update with deserialized object\n            self._categories[key] = category",
     "            # Update with deserialized object"),
    ("c06-bcif-contains-unprefixed", "C06", "structure/io/pdbx/bcif.py",
     "        return super().__contains__(\"_\" + key)", "        return super().__contains__(key)"),
    ("c12-fasta-del-no-reindex", "C12", "sequence/io/fasta/file.py",
     "        del self.lines[start:stop]\n        del self._entries[header]\n        self._find_entries()",
     "        del self.lines[start:stop]\n        del self._entries[header]"),
    ("c12-genbank-del-shift-off-by-one", "C12", "sequence/io/genbank/file.py",
     "        # by the amount of deleted fields\n        shift = stop - start\n",
     "        # by the amount of deleted fields\n        shift = stop - start - 1\n"),
    ("c12-fastq-wrap-scores-unwrapped-index", "C12", "sequence/io/fastq/file.py",
     "                    # -> End of entry\n                    score_stop_i = i + 1",
     "                    # -> End of entry\n                    score_stop_i = i"),
    ("c12-gff-unquoted-equals", "C12", "sequence/io/gff/file.py",
     "\"\".join([char for char in string.punctuation if char not in \"%;=&,\"]) + \" \"",
     "\"\".join([char for char in string.punctuation if char not in \"%;&,\"]) + \" \""),
]


def make_copy():
    root = tempfile.mkdtemp(prefix="verif-sens-")
    dst = os.path.join(root, "src")
    subprocess.run(["rsync", "-a", "--exclude", "*.c", "--exclude", "*.cpp", "--exclude", "__pycache__", "/repo/src/", dst + "/"], check=True)
    return root, dst


def rebuild_in(src_dir):
    """Compile C files that are newer than their built module in a scratch copy (same rule as check.py)."""
    env = dict(os.environ)
    env["PYTHONPATH"] = src_dir
    p = subprocess.run([PY, "-c", f"import sys; sys.path.insert(0, {HERE!r}); import check; print(check.rebuild_extensions())"],
                       env=env, capture_output=True, text=True)
    return p.stdout.strip()


def run_check_against(src_dir, prop, runs=None):
    env = dict(os.environ)
    env["PYTHONPATH"] = src_dir + os.pathsep + env.get("PYTHONPATH", "")
    env["VERIF_REPLAY_DIR"] = os.path.join(os.path.dirname(src_dir), "replays")
    cmd = [PY, os.path.join(HERE, "check.py"), prop, "--tier", "quick", "--no-evidence", "--no-selfcheck"]
    if runs:
        cmd += ["--runs", str(runs)]
    p = subprocess.run(cmd, env=env, capture_output=True, text=True, timeout=3600)
    return p.returncode, p.stdout, p.stderr


def sensitivity(ids):
    failed = 0
    todo = [m for m in MUTATIONS if not ids or m[0] in ids]
    for mid, prop, rel, old, new in todo:
        root, src = make_copy()
        try:
            path = os.path.join(src, "biotite", rel)
            text = open(path).read()
            if text.count(old) != 1:
                print(f"sensitivity {mid}: SKIPPED, pattern occurs {text.count(old)} times in {rel}")
                failed += 1
                continue
            open(path, "w").write(text.replace(old, new))
            t0 = time.time()
            rc, out, err = run_check_against(src, prop)
            sig = [l for l in out.splitlines() if l.startswith("violation signature")]
            ok = rc == 1 and "VIOLATION property=" + prop in out
            print(f"sensitivity {mid} ({prop}): {'DETECTED' if ok else 'MISSED'} rc={rc} {sig[:2]} ({time.time() - t0:.1f}s)")
            if not ok:
                failed += 1
                print(out[-1500:], err[-1500:])
        finally:
            shutil.rmtree(root, ignore_errors=True)
    return 1 if failed else 0


def seeded(ids):
    base = os.path.join(HERE, "seeded")
    failed = 0
    for sid in sorted(os.listdir(base)):
        if ids and sid not in ids:
            continue
        d = os.path.join(base, sid)
        meta_p = os.path.join(d, "meta.json")
        if not os.path.isfile(meta_p):
            continue
        meta = json.load(open(meta_p))
        root, src = make_copy()
        try:
            p = subprocess.run(["patch", "-p1", "-d", os.path.dirname(src), "-i", os.path.join(d, "patch.diff")], capture_output=True, text=True)
            if p.returncode != 0:
                print(f"seeded {sid}: patch does not apply: {p.stdout[-500:]}")
                failed += 1
                continue
            cp = os.path.join(d, "c_patch.diff")
            if os.path.isfile(cp):
                # change to compiled code: patch the generated C file too; check.py recompiles it (C newer than module)
                cfile = os.path.join(src, "biotite/structure/bonds.c")
                shutil.copy("/repo/src/biotite/structure/bonds.c", cfile)
                p = subprocess.run(["patch", "-p1", "-d", os.path.dirname(src), "-i", cp], capture_output=True, text=True)
                if p.returncode != 0:
                    print(f"seeded {sid}: C patch does not apply: {p.stdout[-500:]}")
                    failed += 1
                    continue
                os.utime(cfile, None)
            t0 = time.time()
            # a short batch first (most changes are reported within the first runs), the full quick tier only if that is clean
            os.environ["VERIF_NO_MINIMISE"] = "1"
            rc, out, err = run_check_against(src, meta["property"], runs=FIRST_RUNS.get(meta["property"], 3000))
            if rc != 1:
                rc, out, err = run_check_against(src, meta["property"])
            sig = [l for l in out.splitlines() if l.startswith("violation signature")]
            ok = rc == 1
            expect = meta.get("expected", "detected")
            print(f"seeded {sid} ({meta['property']}): {'DETECTED' if ok else 'MISSED'} (recorded: {expect}) {sig[:2]} ({time.time() - t0:.1f}s)")
            if ok != (expect == "detected"):
                failed += 1
        finally:
            shutil.rmtree(root, ignore_errors=True)
    return 1 if failed else 0


def main():
    if len(sys.argv) < 2:
        print(__doc__)
        return 2
    mode = sys.argv[1]
    if mode == "determinism":
        n = int(sys.argv[2]) if len(sys.argv) > 2 else 200
        props = sys.argv[3:] or PROPS
        return determinism(n, props)
    if mode == "sensitivity":
        return sensitivity(sys.argv[2:])
    if mode == "seeded":
        return seeded(sys.argv[2:])
    print(__doc__)
    return 2


if __name__ == "__main__":
    sys.exit(main())
