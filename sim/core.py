"""Simulator core shared by all claimed properties.

One integer decides everything: (property id, VERIF_SEED, run index) -> sha256 -> random.Random.
A property module provides

    PROP            property id
    TIERS           {"quick": n_runs, "thorough": n_runs}
    generate(rng)   -> spec (JSON-able dict with at least {"cfg":..., "ops":[...]}); pure function of rng
    execute(spec)   -> RunResult; pure function of (spec, code under test)
    simplify(spec)  -> iterator of simpler candidate specs (optional, after op-list ddmin)
    COMPONENTS      {"real": [...], "stub": [...]}  (for the evidence file)
    RULE            text describing generation and the distinct/non-trivial rule
    ASSUMPTIONS     list of str

Everything here is deterministic given the spec: no wall clock, no global PRNG, no hash-order dependence.
"""

import hashlib
import json
import os
import pickle
import random
import signal
import sys
import time as _wall  # wall clock is used ONLY for evidence throughput numbers and safety timeouts
import traceback
from collections import Counter

REPO_SRC = os.path.realpath("/repo/src")
VERIF = os.path.dirname(os.path.dirname(os.path.abspath(__file__)))


# ----------------------------------------------------------------------------------------------
# seeds
# ----------------------------------------------------------------------------------------------

def run_seed(prop, verif_seed, index):
    return hashlib.sha256(f"{prop}:{verif_seed}:{index}".encode()).hexdigest()


def rng_for(prop, verif_seed, index):
    # str seeding of random.Random goes through SHA-512: independent of PYTHONHASHSEED
    return random.Random(run_seed(prop, verif_seed, index))


def canon(obj):
    """Canonical JSON text (sorted keys, no NaN surprises) used for logs, hashes and replay files."""
    return json.dumps(obj, sort_keys=True, separators=(",", ":"), default=_json_default)


def _json_default(o):
    import numpy as np

    if isinstance(o, (np.integer,)):
        return int(o)
    if isinstance(o, (np.floating,)):
        return float(o)
    if isinstance(o, (np.bool_,)):
        return bool(o)
    if isinstance(o, np.ndarray):
        return o.tolist()
    if isinstance(o, (set, frozenset)):
        return sorted(canon(x) for x in o)
    if isinstance(o, bytes):
        return {"__bytes__": o.hex()}
    if isinstance(o, tuple):
        return list(o)
    return repr(o)


def h64(text):
    return int.from_bytes(hashlib.sha1(text.encode()).digest()[:8], "big")


# ----------------------------------------------------------------------------------------------
# outcomes
# ----------------------------------------------------------------------------------------------

class Violation(Exception):
    """Raised by an oracle. sig identifies the violation class (oracle id + operation kind);
    detail is free JSON for the reader."""

    def __init__(self, sig, detail=None, step=None):
        super().__init__(sig)
        self.sig = sig
        self.detail = detail
        self.step = step


class InvalidSpec(Exception):
    """The spec asks for something the simulator refuses to do (e.g. join(None) on a tool scripted to
    hang). Never generated; can only arise from shrinking candidates, which are then discarded."""


class EventLog:
    def __init__(self, seed_line):
        self.h = hashlib.sha256()
        self.n = 0
        self.tail = []
        self.keep = 0
        self.add({"seed": seed_line})

    def add(self, ev):
        t = canon(ev)
        self.h.update(t.encode())
        self.h.update(b"\n")
        self.n += 1
        if self.keep:
            self.tail.append(t)
            if len(self.tail) > self.keep:
                del self.tail[0]

    def digest(self):
        return self.h.hexdigest()


class RunResult:
    __slots__ = ("digest", "violation", "known", "stats", "features", "sim_time", "n_ops", "nontrivial", "log")

    def __init__(self):
        self.digest = None
        self.violation = None  # dict(sig, detail, step)
        self.known = []  # list of (finding id, text)
        self.stats = Counter()
        self.features = set()
        self.sim_time = 0.0
        self.n_ops = 0
        self.nontrivial = False
        self.log = None


def classify_exception(exc):
    """'biotite' when the innermost frames of the traceback are inside /repo/src, else 'harness'."""
    tb = traceback.extract_tb(exc.__traceback__)
    for fr in reversed(tb):
        fn = os.path.realpath(fr.filename)
        if fn.startswith(REPO_SRC) or "/biotite/" in fn:
            return "biotite"
        if fn.startswith(VERIF):
            return "harness"
    return "harness"


def call(fn, *args, **kwargs):
    """Run one call into the system under test; return ('ok', value) or ('exc', exception)."""
    try:
        return "ok", fn(*args, **kwargs)
    except (InvalidSpec, Violation):
        raise
    except BaseException as e:  # noqa: BLE001 - SystemExit/KeyboardInterrupt from the SUT are outcomes too
        if isinstance(e, KeyboardInterrupt) and not getattr(e, "injected", False):
            raise
        return "exc", e


def exc_name(e):
    return type(e).__name__


# ----------------------------------------------------------------------------------------------
# known findings
# ----------------------------------------------------------------------------------------------

_KF = None


def known_findings(prop=None):
    global _KF
    if _KF is None:
        path = os.path.join(VERIF, "known_findings.json")
        with open(path) as f:
            _KF = json.load(f)["findings"]
    return [k for k in _KF if (prop is None or k["property"] == prop)]


def match_known(prop, sig, detail):
    """A violation is a known finding iff an entry with status 'known' has the same property, a
    signature prefix match, and every key of its 'where' equal in detail."""
    for k in known_findings(prop):
        if k.get("status") != "known":
            continue
        if not any(sig == s or sig.startswith(s + ":") for s in k["signatures"]):
            continue
        where = k.get("where", {})
        d = detail if isinstance(detail, dict) else {}
        if all((d.get(a) in b) if isinstance(b, list) else (d.get(a) == b) for a, b in where.items()):
            return k
    return None


# ----------------------------------------------------------------------------------------------
# executing one spec (optionally in a sacrificial child)
# ----------------------------------------------------------------------------------------------

def execute_guarded(mod, spec, keep_log=0):
    """execute() with harness/biotite exception classification. Returns RunResult.
    Raises HarnessError for exceptions of the harness itself."""
    try:
        return mod.execute(spec, keep_log=keep_log)
    except InvalidSpec:
        raise
    except Violation as v:  # an oracle raised outside the executor's own handler
        r = RunResult()
        r.violation = {"sig": v.sig, "detail": v.detail, "step": v.step}
        return r
    except RecursionError as e:
        r = RunResult()
        r.violation = {"sig": "unexpected-exception:RecursionError", "detail": {"where": classify_exception(e)}, "step": None}
        return r
    except Exception as e:  # noqa: BLE001
        if classify_exception(e) == "biotite":
            r = RunResult()
            r.violation = {
                "sig": f"unexpected-exception:{exc_name(e)}",
                "detail": {"trace": traceback.format_exc()[-1500:]},
                "step": None,
            }
            return r
        raise HarnessError(traceback.format_exc()) from e


class HarnessError(Exception):
    pass


def execute_isolated(mod, spec, timeout=120, keep_log=0):
    """Run one spec in a forked child. Returns dict(outcome=ok|violation|invalid|harness|crashed|hung, ...)."""
    r, w = os.pipe()
    pid = os.fork()
    if pid == 0:
        os.close(r)
        code = 0
        try:
            import faulthandler

            faulthandler.disable()  # the parent reports the signal; no traceback noise on stderr
            signal.alarm(int(timeout) + 5)
            try:
                res = execute_guarded(mod, spec, keep_log=keep_log)
                out = {
                    "outcome": "violation" if res.violation else "ok",
                    "violation": res.violation,
                    "known": res.known,
                    "digest": res.digest,
                    "log": res.log,
                    "stats": dict(res.stats),
                }
            except InvalidSpec as e:
                out = {"outcome": "invalid", "why": str(e)}
            except HarnessError as e:
                out = {"outcome": "harness", "trace": str(e)}
            with os.fdopen(w, "wb") as f:
                pickle.dump(out, f)
        except BaseException:  # noqa: BLE001
            code = 3
        finally:
            os._exit(code)
    os.close(w)
    data = b""
    deadline = _wall.monotonic() + timeout
    import select

    with os.fdopen(r, "rb") as f:
        while True:
            left = deadline - _wall.monotonic()
            if left <= 0:
                os.kill(pid, signal.SIGKILL)
                os.waitpid(pid, 0)
                return {"outcome": "hung"}
            rl, _, _ = select.select([f], [], [], min(left, 1.0))
            if rl:
                chunk = os.read(f.fileno(), 1 << 20)
                if not chunk:
                    break
                data += chunk
    _, status = os.waitpid(pid, 0)
    if os.WIFSIGNALED(status):
        sig = os.WTERMSIG(status)
        if sig == signal.SIGALRM:
            return {"outcome": "hung"}
        return {"outcome": "crashed", "signal": sig}
    if not data:
        return {"outcome": "crashed", "signal": None, "exit": os.WEXITSTATUS(status)}
    return pickle.loads(data)


class SequenceModule:
    """Executes several specs one after the other in ONE process and reports the outcome of the last one: the way to
    reproduce a violation that depends on what earlier runs left behind in the process (module- or class-level state of
    the code under test)."""

    def __init__(self, mod):
        self.mod = mod
        self.PROP = mod.PROP

    def execute(self, spec, keep_log=0):
        seq = spec["sequence"]
        for s in seq[:-1]:
            try:
                self.mod.execute(s)
            except (InvalidSpec, Violation):
                pass
        return self.mod.execute(seq[-1], keep_log=keep_log)


def reproduce_with_predecessors(mod, verif_seed, idx, want_sig, start_index=0):
    """A run that misbehaved in the batch but is clean in a process of its own: try it again after the runs that preceded
    it in its worker's chunk (first only the run before it, then the whole chunk prefix). Returns (sequence spec,
    outcome) if the violation comes back, else None. The sequence is then shortened greedily."""
    chunk_start = start_index + ((idx - start_index) // CHUNK) * CHUNK
    if idx == chunk_start:
        return None
    sm = SequenceModule(mod)

    def run(indices):
        specs = []
        for i in indices:
            try:
                specs.append(make_spec(mod, verif_seed, i))
            except Exception:  # noqa: BLE001
                return None, None
        spec = {"sequence": specs, "ops": specs[-1].get("ops", []), "indices": list(indices)}
        out = execute_isolated(sm, spec, timeout=90)
        return spec, out

    def same(out):
        sig = outcome_sig(out)
        if sig is None:
            return False
        return sig == want_sig or (want_sig.startswith("process-") and sig.startswith("process-"))

    for indices in ([idx - 1, idx], list(range(chunk_start, idx + 1))):
        spec, out = run(indices)
        if spec is None or not same(out):
            continue
        # shorten: drop predecessors one by one (latest first), bounded effort
        keep = list(indices)
        tries = 0
        for i in list(reversed(keep[:-1])):
            if tries >= (4 if want_sig.startswith("process-") else 25) or len(keep) <= 2:
                break
            tries += 1
            cand = [x for x in keep if x != i]
            sp2, out2 = run(cand)
            if sp2 is not None and same(out2):
                keep, spec, out = cand, sp2, out2
        return spec, out
    return None


def outcome_sig(out):
    """Signature string of an isolated outcome (None when nothing is wrong)."""
    o = out["outcome"]
    if o == "violation":
        return out["violation"]["sig"]
    if o == "crashed":
        return f"process-died:signal={out.get('signal')}"
    if o == "hung":
        return "process-hung"
    return None


# ----------------------------------------------------------------------------------------------
# minimisation
# ----------------------------------------------------------------------------------------------

def ddmin_ops(spec, test, budget):
    """Classic ddmin over spec['ops'] (list). test(spec)->bool must be True for the failing input."""
    ops = list(spec["ops"])
    n = 2
    used = 0
    while len(ops) >= 1 and used < budget:
        chunk = max(1, len(ops) // n)
        reduced = False
        i = 0
        while i < len(ops) and used < budget:
            cand = ops[:i] + ops[i + chunk:]
            s2 = dict(spec)
            s2["ops"] = cand
            used += 1
            if test(s2):
                ops = cand
                n = max(n - 1, 2)
                reduced = True
            else:
                i += chunk
        if not reduced:
            if chunk == 1:
                break
            n = min(n * 2, len(ops))
    out = dict(spec)
    out["ops"] = ops
    return out, used


def minimise(mod, spec, sig, isolated=True, budget=400):
    def same(out):
        return outcome_sig(out) == sig

    hung = sig.startswith("process-hung")
    if hung:
        budget = min(budget, 12)  # every candidate that still hangs costs its whole timeout

    def test(s):
        if isolated:
            return same(execute_isolated(mod, s, timeout=20 if hung else 60))
        try:
            res = execute_guarded(mod, s)
        except (InvalidSpec, HarnessError):
            return False
        return bool(res.violation) and res.violation["sig"] == sig

    # truncate after the failing step first (cheap, usually large win)
    best = spec
    best, used = ddmin_ops(best, test, budget)
    simplify = getattr(mod, "simplify", None)
    if simplify is not None:
        progress = True
        while progress and used < budget:
            progress = False
            for cand in simplify(best):
                used += 1
                if used >= budget:
                    break
                if test(cand):
                    best = cand
                    progress = True
                    break
        best, u2 = ddmin_ops(best, test, max(0, budget - used))
    return best


# ----------------------------------------------------------------------------------------------
# batch running with crash containment
# ----------------------------------------------------------------------------------------------

class Agg:
    """What a worker accumulates over a chunk of runs (picklable)."""

    def __init__(self):
        self.runs = 0
        self.ops = 0
        self.sim_time = 0.0
        self.stats = Counter()
        self.features = set()
        self.hist = set()  # 64-bit hashes of distinct non-trivial histories
        self.violations = []  # (index, violation dict)
        self.known = {}  # finding id -> (text, first index)
        self.digests = {}  # index -> digest (only for indices < DIGEST_SAMPLE)
        self.samples = []
        self.harness = []

    def merge(self, o):
        self.runs += o.runs
        self.ops += o.ops
        self.sim_time += o.sim_time
        self.stats.update(o.stats)
        self.features |= o.features
        self.hist |= o.hist
        self.violations += o.violations
        for k, v in o.known.items():
            if k not in self.known or v[1] < self.known[k][1]:
                self.known[k] = v
        self.digests.update(o.digests)
        self.samples += o.samples
        self.harness += o.harness


DIGEST_SAMPLE = 8
SAMPLE_INDICES = (0, 1, 2)
CHUNK = 100
MAX_FATAL = 6  # dead/hung runs after which a batch stops early (they are all reported as violations)


def make_spec(mod, verif_seed, index):
    """The spec of run `index`: a pure function of (property, VERIF_SEED, index). Modules that enumerate a
    systematic family provide generate_indexed(index, rng) instead of generate(rng)."""
    rng = rng_for(mod.PROP, verif_seed, index)
    gi = getattr(mod, "generate_indexed", None)
    spec = gi(index, rng) if gi is not None else mod.generate(rng)
    spec["seed"] = run_seed(getattr(mod, "SEED_NAMESPACE", mod.PROP), verif_seed, index)
    return spec


def run_one(mod, verif_seed, index, agg):
    spec = make_spec(mod, verif_seed, index)
    try:
        res = execute_guarded(mod, spec, keep_log=0)
    except InvalidSpec as e:
        agg.harness.append((index, "generator produced an invalid spec: %s" % e))
        return
    except HarnessError as e:
        agg.harness.append((index, str(e)))
        return
    agg.runs += 1
    agg.ops += res.n_ops
    agg.sim_time += res.sim_time
    agg.stats.update(res.stats)
    agg.features |= res.features
    if res.nontrivial:
        agg.hist.add(h64(canon(spec["ops"]) + canon(spec.get("cfg"))))
    if res.violation:
        agg.violations.append((index, res.violation))
    for fid, text in res.known:
        if fid not in agg.known:
            agg.known[fid] = (text, index)
    if index < DIGEST_SAMPLE:
        agg.digests[index] = res.digest
    if index in SAMPLE_INDICES:
        agg.samples.append({"run_index": index, "cfg": spec.get("cfg"), "ops": spec["ops"][:40]})


def _worker(mod, verif_seed, indices, scratch, wid):
    """Child process: runs indices in chunks, journals the index before each run, dumps one pickle per chunk."""
    import faulthandler

    faulthandler.enable()
    jpath = os.path.join(scratch, f"w{wid}.journal")
    j = open(jpath, "a", buffering=1)
    k = 0
    while k < len(indices):
        part = indices[k:k + CHUNK]
        agg = Agg()
        for i in part:
            j.write(f"{i}\n")
            run_one(mod, verif_seed, i, agg)
        tmp = os.path.join(scratch, f"w{wid}.c{part[0]}.tmp")
        with open(tmp, "wb") as f:
            pickle.dump((part, agg), f)
        os.rename(tmp, os.path.join(scratch, f"w{wid}.c{part[0]}.pkl"))
        j.write("done\n")
        k += CHUNK
    j.close()


def run_many(mod, verif_seed, n_runs, nworkers, scratch, wall_cap=None, start_index=0):
    """Fork nworkers children over run indices [start, start+n). A child that dies or stalls is
    attributed to the journalled run index, recorded as a violation, and its remaining indices are
    re-dispatched. Returns (Agg, truncated flag)."""
    total = Agg()
    indices = list(range(start_index, start_index + n_runs))
    # static striping by chunk so that the assignment does not depend on timing
    chunks = [indices[i:i + CHUNK] for i in range(0, len(indices), CHUNK)]
    per_worker = [[] for _ in range(nworkers)]
    for ci, ch in enumerate(chunks):
        per_worker[ci % nworkers] += ch
    t0 = _wall.monotonic()
    truncated = False
    live = {}  # pid -> (wid, indices)
    next_wid = [0]
    fatal = [0]

    def spawn(idx):
        if not idx:
            return
        wid = next_wid[0]
        next_wid[0] += 1
        sys.stdout.flush()
        sys.stderr.flush()
        pid = os.fork()
        if pid == 0:
            code = 0
            try:
                _worker(mod, verif_seed, idx, scratch, wid)
            except BaseException:  # noqa: BLE001
                traceback.print_exc()
                code = 4
            finally:
                sys.stdout.flush()
                sys.stderr.flush()
                os._exit(code)
        live[pid] = (wid, idx, _wall.monotonic(), 0)

    for idx in per_worker:
        spawn(idx)

    STALL = getattr(mod, "STALL_SECONDS", 60)
    while live:
        pid, status = os.waitpid(-1, os.WNOHANG)
        if pid == 0:
            _wall.sleep(0.05)
            now = _wall.monotonic()
            if wall_cap is not None and now - t0 > wall_cap:
                truncated = "wall"
                for p in list(live):
                    os.kill(p, signal.SIGKILL)
                    os.waitpid(p, 0)
                    wid, idx, _, _ = live.pop(p)
                    _collect(scratch, wid, total)
                break
            # stall detection through journal size
            for p, (wid, idx, last, size) in list(live.items()):
                try:
                    sz = os.path.getsize(os.path.join(scratch, f"w{wid}.journal"))
                except OSError:
                    sz = 0
                if sz != size:
                    live[p] = (wid, idx, now, sz)
                elif now - last > STALL:
                    os.kill(p, signal.SIGKILL)
            continue
        if pid not in live:
            continue
        wid, idx, _, _ = live.pop(pid)
        done_idx = _collect(scratch, wid, total)
        clean = os.WIFEXITED(status) and os.WEXITSTATUS(status) == 0
        if clean:
            continue
        # died: find the journalled run
        last_i = _journal_last(scratch, wid)
        remaining = [i for i in idx if i not in done_idx]
        if os.WIFEXITED(status):
            total.harness.append((last_i, f"worker exited with status {os.WEXITSTATUS(status)}"))
            # do not loop forever on a harness bug: drop this worker's remaining work
            continue
        sig = os.WTERMSIG(status)
        if last_i is not None and last_i in remaining:
            what = "process-hung" if sig == signal.SIGKILL else f"process-died:signal={sig}"
            total.violations.append((last_i, {"sig": what, "detail": {"signal": sig}, "step": None}))
            total.runs += 1
            fatal[0] += 1
            # re-run the rest of that chunk and the following chunks without the fatal index
            remaining = [i for i in remaining if i != last_i]
        if fatal[0] >= MAX_FATAL:
            # enough dead or hung runs to report; do not spend hours re-spawning workers
            truncated = "fatal-violations"
            for p in list(live):
                os.kill(p, signal.SIGKILL)
                os.waitpid(p, 0)
                wid2, _, _, _ = live.pop(p)
                _collect(scratch, wid2, total)
            break
        spawn(remaining)
    return total, truncated


def _journal_last(scratch, wid):
    try:
        with open(os.path.join(scratch, f"w{wid}.journal")) as f:
            lines = f.read().split()
    except OSError:
        return None
    for t in reversed(lines):
        if t != "done":
            return int(t)
    return None


def _collect(scratch, wid, total):
    done = set()
    pre = f"w{wid}.c"
    for name in sorted(os.listdir(scratch)):
        if name.startswith(pre) and name.endswith(".pkl"):
            p = os.path.join(scratch, name)
            with open(p, "rb") as f:
                part, agg = pickle.load(f)
            os.remove(p)
            done.update(part)
            total.merge(agg)
    return done
