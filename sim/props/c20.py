"""C20 - application wrappers follow their life cycle and always clean up.

Deterministic simulation: real biotite.application code runs against a virtual clock, in-process
child processes (SimPopen) with scripted behaviour, fake MSA tools acting on the real temp files,
a run-private temp dir and cwd. One PRNG (from the seed) decides the workload, the interleaving of
two wrappers and clock advances (i.e. where a child's exit lands in the call sequence) and all faults.
"""

import json
import os
import shutil
import tempfile
import warnings

import numpy as np

from .. import simworld as sw
from ..core import EventLog, InvalidSpec, RunResult, Violation, call, canon, exc_name

PROP = "C20"
TIERS = {"quick": 30000, "thorough": 1500000}
WALL_CAP = {"quick": 900, "thorough": 6 * 3600}
SHRINK_BUDGET = 250
STALL_SECONDS = 120

COMPONENTS = {
    "real": ["biotite.application.application (Application, requires_state, AppState)",
             "biotite.application.localapp (LocalApp, cleanup_tempfile, get_version)",
             "biotite.application.webapp (WebApp, RuleViolationError) as base class of the polling stub in half of its runs",
             "biotite.application.msaapp (MSAApp)", "biotite.application.util (map_sequence, map_matrix)",
             "biotite.application.clustalo.ClustalOmegaApp", "biotite.application.muscle.MuscleApp",
             "biotite.application.muscle.Muscle5App", "biotite.application.mafft.MafftApp",
             "biotite FastaFile / Alignment.trace_from_strings / Tree.from_newick / SubstitutionMatrix.__str__",
             "real temporary files (tempfile.NamedTemporaryFile) in a run-private directory", "real os.chdir/getcwd"],
    "stub": ["time module seen by application.py -> virtual clock", "subprocess.Popen -> SimPopen (in-process scripted child)",
             "subprocess.run (version probe) -> scripted banner", "external MSA programs -> fake tools in /verif/sim/simworld.py",
             "tempfile name sequence -> seeded", "StubLocalApp / StubPollApp / StubMSAApp: logic-free subclasses that drive the base classes alone (StubMSAApp: command line + the four supports_*() hooks, answers drawn per run)",
             "signals -> InjectedInterrupt / InjectedExit / InjectedAbort raised at a launch or inside a blocking wait at a chosen simulated instant",
             "web server of the WebApp flavour -> in-process rate limiter on the virtual clock (one contact per `gap` seconds)",
             "NamedTemporaryFile as imported by msaapp / clustalo / muscle -> the real file behind SimTempFile, a proxy that fails write/flush/close with ENOSPC while the simulated disk is full",
             "pipe decoding: SimPopen decodes scripted STDERR bytes with the encoding / error policy the wrapper passed (undecodable bytes, bytes already written when a timeout expires)"],
}
RULE = ("Each run: the PRNG picks 1-2 wrappers (kind, sequence set, matrix, fault script, version banner), then up to 30 "
        "operations (create/start/join/cancel/state/setters/getters/align, clock advances, switching wrappers). "
        "A history counts as non-trivial when it has >= 3 operations and at least one child was launched; "
        "distinct = distinct (cfg, ops) hashes. distinct_step_classes = distinct (kind, op, model state, outcome) tuples.")
ASSUMPTIONS = [
    "SimPopen reproduces the Popen semantics biotite relies on (poll/communicate/kill/returncode); checked against real processes by the conformance mode",
    "a fake tool acts on its files at its exit instant (no partially written file is visible while it runs)",
    "the life-cycle table in DESIGN.md Appendix A is the documented life cycle",
    "a RuleViolationError ends no run: the wrapper keeps its state and resources and stays usable (webapp.py documents it as raised 'if the program continued')",
    "after a failed launch the state flag and the legality of further calls are unspecified; only resource invariants are checked",
]
PROBES = ["join-while-running", "join-after-finished", "timeout-expired", "evaluate-failed-after-zero-exit",
          "cancel-while-running", "cancel-after-exit", "exit-between-calls", "two-wrappers-interleaved",
          "launch-failed-with-execdir", "state-error-checked", "results-verified", "tree-verified",
          "mapped-alphabet-verified", "matrix-file-verified", "align-classmethod-failed", "poll-join-timeout", "cwd-changed-between-calls",
          "poll-join-success", "clock-jump-during-join", "exited-unrefreshed-getter"]

PROT = "ACDEFGHIKLMNPQRSTVWY"
NUC = "ACGT"
NUC_AMB = "ACGTRYWSMKHBVDN"
KINDS = ["clustalo", "muscle3", "muscle5", "mafft", "stublocal", "stubpoll", "stubmsa"]
# stubmsa: a bare MSAApp subclass for a program with a configurable set of abilities (the four supports_*() hooks a
# subclass overrides); the shipped wrappers all answer True for the sequence types, so only this kind reaches the
# constructor branches for a protein-only / nucleotide-only program and for missing custom-matrix support
ALL_ABILITIES = {"nuc": True, "prot": True, "nuc_matrix": True, "prot_matrix": True}

CREATED, RUNNING, FINISHED, JOINED, CANCELLED, LAUNCH_FAILED, DEAD = (
    "CREATED", "RUNNING", "FINISHED", "JOINED", "CANCELLED", "LAUNCH_FAILED", "DEAD")

ALLOWED = {
    "start": {CREATED},
    "join": {RUNNING, FINISHED},
    "cancel": {RUNNING, FINISHED},
    "setter": {CREATED},
    "get_command": {RUNNING, FINISHED, JOINED, CANCELLED},
    "get_process": {RUNNING, FINISHED},
    "get_exit_code": {FINISHED, JOINED},
    "get_stdout": {FINISHED, JOINED},
    "get_stderr": {FINISHED, JOINED},
    "result": {JOINED},
}


# ================================================================================================
# generation
# ================================================================================================

def _gen_seqs(rng, kind):
    t = rng.choices(["protein", "nuc", "nuc_amb", "custom"], [5, 3, 2, 2 if kind in ("muscle3", "mafft", "stubmsa") else 0.4])[0]
    n = rng.choice([2, 2, 3, 3, 4, 5, 6, 9, 10, 11, 12, 14])
    mode = rng.choice(["random", "random", "equal", "len1", "related"])
    if t == "custom":
        k = rng.randint(3, 24) if rng.random() < 0.93 else rng.randint(25, 30)  # more symbols than amino acids: refused
        alph = [f"s{j}" for j in range(k)] if rng.random() < 0.5 else list(range(10, 10 + k))
        letters = list(range(k))
    else:
        alph = None
        letters = {"protein": PROT + ("BZX*" if rng.random() < 0.3 else ""), "nuc": NUC, "nuc_amb": NUC_AMB}[t]
    prefix = None
    if t in ("protein", "nuc_amb") and rng.random() < 0.2:
        # general sequences over a leading part of the amino-acid / ambiguous-nucleotide alphabet (e.g. the 20 standard
        # amino acids): the documented test "the program's alphabet extends the sequences' alphabet" holds for them
        prefix = rng.choice([20, 20, 6, 23]) if t == "protein" else rng.choice([4, 9, 15])
    rows = []
    maxlen = rng.choice([12, 12, 12, 12, 85, 170])  # long sequences wrap in the FASTA files exchanged with the tool
    base = [rng.choice(letters) for _ in range(rng.randint(1, maxlen))]
    for i in range(n):
        if mode == "equal":
            r = list(base)
        elif mode == "len1":
            r = [rng.choice(letters)]
        elif mode == "related":
            r = [c for c in base if rng.random() < 0.8] or [base[0]]
        else:
            r = [rng.choice(letters) for _ in range(rng.randint(1, maxlen))]
        rows.append(r if t == "custom" else "".join(r))
    if prefix is not None:
        from biotite.sequence import NucleotideSequence, ProteinSequence

        full = (ProteinSequence.alphabet if t == "protein" else NucleotideSequence.alphabet_amb).get_symbols()
        allowed = [str(x) for x in full[:prefix]]
        rows = ["".join(c if c in allowed else allowed[ord(c) % len(allowed)] for c in r) for r in rows]
    return {"type": t, "rows": rows, "alphabet": alph, "prefix": prefix, "container": rng.choice(["list", "list", "tuple", "generator"]),
            # the sequences share one alphabet object, or carry equal alphabets that are distinct objects (what
            # unpickling, deepcopy or building each sequence with its own Alphabet(...) gives)
            "alph_objects": rng.choice(["shared", "shared", "shared", "equal_copies"])}


def _gen_script(rng, kind, faulty):
    s = {"launch": "ok", "dur": rng.choice([0.1, 0.35, 1.1, 2.6, 7.35, 30.1, 120.6, 599.85]), "exit": 0, "out": "ok",
         "tree": "ok", "stderr": "", "tool_seed": rng.randrange(1 << 30)}
    if kind == "stubpoll":
        s["wi"] = rng.choice([0.05, 0.25, 1.0, 5.0])
        s["eval"] = "ok"
    if kind == "stublocal":
        s["stdout"] = rng.choice(["", "hello\n", "line1\nline2\n"])
    if kind != "stubpoll" and rng.random() < 0.1:
        # prints more than a pipe holds (64 KiB) on STDERR before it exits: blocked in write() until the wrapper reads
        s["big_output"] = True
    if kind != "stubpoll" and rng.random() < 0.25:
        s["ignores_term"] = True  # the program ignores SIGTERM; only SIGKILL ends it
    if kind not in ("stublocal", "stubpoll") and rng.random() < 0.2:
        s["case"] = "lower"  # a legal behaviour of the program: the same alignment, residues printed in lower case
    if kind != "stubpoll" and s["tool_seed"] % 9 == 0:
        # the program ends its STDERR with a message in an 8-bit locale encoding (bytes that are not valid UTF-8): a
        # behaviour of the program that has nothing to do with its result. Derived from tool_seed, not drawn, so that
        # the rest of the generated history is what it was before this fault kind existed
        s["bad_bytes"] = True
    if kind != "stubpoll" and s["tool_seed"] % 5 == 1:
        # the program prints a line on STDERR right after it was started; a join() that runs into its timeout sees these
        # bytes (subprocess hands them over with TimeoutExpired), a later join() gets them in front of the rest
        s["early_err"] = True
    if kind in ("clustalo", "muscle3", "muscle5", "mafft", "stubmsa") and s["tool_seed"] % 17 == 3:
        # the disk is full at the moment the wrapper writes the program's input files in start(): a failure to launch
        # (derived from tool_seed, not drawn, like bad_bytes)
        s["disk_full"] = True
    if not faulty:
        return s
    f = rng.choice(["launch", "nonzero", "hang", "out", "tree", "nonzero_partial", "eval"])
    if f == "launch":
        # "interrupt": a signal (Ctrl-C) reaches the caller's thread while start() is launching the program
        s["launch"] = rng.choice(["enoent", "eacces", "eagain", "interrupt"])
        # which asynchronous exception an "interrupt" delivers: Ctrl-C, sys.exit() from a SIGTERM handler, or another
        # BaseException (asyncio.CancelledError, a test runner's timeout)
        s["intr_class"] = rng.choice(["KeyboardInterrupt", "KeyboardInterrupt", "SystemExit", "BaseException"])
        if kind == "stublocal" and rng.random() < 0.4:
            # the launch itself works, but a step of the subclass' run() after it raises: the run has ended as well
            s["launch"] = "ok"
            s["post_launch"] = rng.choice(["fail", "fail", "interrupt"])
    elif f in ("nonzero", "nonzero_partial"):
        s["exit"] = rng.choice([1, 2, 127, 139, -11])
        s["stderr"] = rng.choice(["", "FATAL: something\nwent wrong\n", "Killed\n"])
        if f == "nonzero_partial":
            s["partial_output"] = True
    elif f == "hang":
        s["dur"] = None
    elif f == "out":
        s["out"] = rng.choice(["garbage", "empty", "missing_row", "truncated"])
    elif f == "tree":
        s["tree"] = rng.choice(["missing", "empty", "garbage"])
        if kind == "muscle3":
            # MUSCLE 3 writes two trees (first and second iteration): the fault hits both, only the first, or only the
            # second one (derived from tool_seed, not drawn)
            which = s["tool_seed"] % 3
            if which == 1:
                s["tree1"], s["tree"] = s["tree"], "ok"
            elif which == 2:
                s["tree1"] = "ok"
    elif f == "eval":
        s["eval"] = "fail"
        if kind != "stubpoll":
            s["out"] = "empty"
    return s


def _gen_wrapper(rng, faulty):
    kind = rng.choices(KINDS, [4, 4, 3, 4, 2, 3, 3])[0]
    w = {"kind": kind, "bin": rng.choice([None, None, f"/opt/tools/bin/{kind}"])}
    if kind == "stubmsa":
        w["flags"] = {"nuc": rng.random() < 0.6, "prot": rng.random() < 0.8, "nuc_matrix": rng.random() < 0.6, "prot_matrix": rng.random() < 0.7}
    if kind in ("stublocal", "stubpoll"):
        w["bin"] = "stubtool"
        if kind == "stubpoll" and rng.random() < 0.5:
            # the polling wrapper is a WebApp: every state refresh is a server contact, contacts closer than `gap`
            # simulated seconds break the server's rules (a usually-successful call returns a retryable error)
            w["web"] = {"obey": rng.random() < 0.65, "gap": rng.choice([0.0, 0.05, 0.5, 1.0, 3.0, 60.0]),
                        "msg": rng.choice([None, "The server was contacted too often"]),
                        "url": rng.choice(["https://sim.example/cgi", "http://localhost:8080/run"])}
    else:
        w["seqs"] = _gen_seqs(rng, kind)
        w["matrix"] = None
        t = w["seqs"]["type"]
        if t == "custom" or (kind == "stubmsa" and rng.random() < 0.55) or (t == "protein" and kind in ("muscle3", "mafft") and rng.random() < 0.4) or \
                (t in ("nuc", "nuc_amb") and kind == "mafft" and rng.random() < 0.3) or rng.random() < 0.03:
            w["matrix"] = {"seed": rng.randrange(1 << 30), "asym": rng.random() < 0.04}
        if t == "custom" and rng.random() < 0.06:
            w["matrix"] = None  # rejected: custom alphabet needs a matrix
        w["ctor_fault"] = None
        if rng.random() < 0.04:
            w["ctor_fault"] = rng.choice(["one_seq", "mixed_alphabets"])
    w["script"] = _gen_script(rng, kind, faulty and rng.random() < 0.75)
    if kind == "muscle3":
        w["version"] = {"kind": "ok", "banner": "MUSCLE v3.8.31 by Robert C. Edgar\n"}
    elif kind == "muscle5":
        # documented: MUSCLE version >= 5
        w["version"] = {"kind": "ok", "banner": rng.choice(["muscle 5.1.linux64 []\n", "muscle 5.1.linux64 []\n", "muscle 6.0.linux64 []\n", "muscle 10.2.osx64 []\n"])}
    if kind in ("muscle3", "muscle5") and faulty and rng.random() < 0.12:
        w["version"] = rng.choice([
            {"kind": "wrong", "banner": "muscle 5.1.linux64 []\n" if kind == "muscle3" else "MUSCLE v3.8.31 by Robert C. Edgar\n"},
            # the neighbouring major versions: MUSCLE 4 (neither 3 nor >= 5) and MUSCLE 2
            {"kind": "wrong", "banner": "MUSCLE v4.0 by Robert C. Edgar\n" if kind == "muscle3" else "muscle 4.0.linux64 []\n"},
            {"kind": "wrong", "banner": "MUSCLE v2.9 by Robert C. Edgar\n" if kind == "muscle3" else "muscle 4.9.linux64 []\n"},
            {"kind": "garbage", "banner": rng.choice(["", "command not found\n", "version five\n"])},
            {"kind": "enoent", "banner": ""}])
    return w


SETTERS = {
    "clustalo": ["add_options", "set_exec_dir", "full_matrix", "set_distance_matrix", "set_guide_tree"],
    "muscle3": ["add_options", "set_exec_dir", "set_gap_penalty"],
    "muscle5": ["add_options", "set_exec_dir", "set_iterations", "set_thread_number", "use_super5"],
    "mafft": ["add_options", "set_exec_dir"],
    "stublocal": ["add_options", "set_exec_dir", "set_arguments", "set_stdin"],
    "stubpoll": [],
    "stubmsa": ["add_options", "set_exec_dir"],
}
RESULTS = {
    "clustalo": ["get_alignment", "get_alignment_order", "get_guide_tree", "get_distance_matrix"],
    "muscle3": ["get_alignment", "get_alignment_order", "get_guide_tree", "get_guide_tree_kmer"],
    "muscle5": ["get_alignment", "get_alignment_order"],
    "mafft": ["get_alignment", "get_alignment_order", "get_guide_tree"],
    "stublocal": [],
    "stubpoll": ["get_result"],
    "stubmsa": ["get_alignment", "get_alignment_order"],
}
LOCAL_GETTERS = ["get_command", "get_process", "get_exit_code", "get_stdout", "get_stderr"]


def _gen_setter(rng, kind, nseq):
    name = rng.choice(SETTERS[kind])
    op = {"op": name}
    if name == "add_options":
        # (the last one carries a NUL character: accepted by the setter, refused by Popen's own argument checking)
        op["options"] = rng.choice([["--x-a"], ["--x-b", "--x-c"], [], ["--x-a"], ["--x-b", "--x-c"], ["--x-nul\0byte"]])
    elif name == "set_exec_dir":
        op["dir"] = rng.choice(["exec", "exec", "exec2", "missing"])
    elif name == "set_distance_matrix":
        op["n"] = nseq if rng.random() < 0.8 else nseq + rng.choice([-1, 1])
        op["seed"] = rng.randrange(1 << 30)
    elif name == "set_guide_tree":
        op["n"] = nseq if rng.random() < 0.8 else nseq + rng.choice([-1, 1])
        op["seed"] = rng.randrange(1 << 30)
    elif name == "set_gap_penalty":
        op["value"] = rng.choice([-5.0, -1, [-10, -1], [-12.5, -0.5], 3.0, [1, -1], [-1, 2], "x", 0,
                                  {"np": "int64", "v": -3}, {"np": "float32", "v": -2.5}, {"np": "int32", "v": 4}])
    elif name == "set_iterations":
        op["consistency"] = rng.choice([None, 0, 2])
        op["refinement"] = rng.choice([None, 1, 100])
    elif name == "set_thread_number":
        op["number"] = rng.choice([1, 4, 16])
    elif name == "set_arguments":
        op["arguments"] = rng.choice([[], ["-a"], ["-a", "file.txt"]])
    return op


def generate(rng):
    two = rng.random() < 0.4
    faulty = rng.random() < 0.55
    wrappers = [_gen_wrapper(rng, faulty)]
    if two:
        wrappers.append(_gen_wrapper(rng, faulty))
    jumps = []
    if faulty and any(w["kind"] == "stubpoll" for w in wrappers) and rng.random() < 0.4:
        for _ in range(rng.randint(1, 3)):
            jumps.append([rng.choice([0.5, 3.2, 15.7, 70.3]), rng.choice([-3600.0, -5.0, 2.0, 7200.0])])
    cfg = {"wrappers": wrappers, "jumps": jumps, "name_seed": rng.randrange(1 << 30)}

    ops = []
    nops = rng.randint(3, 30)
    # generation-time sketch of each wrapper's state so that most calls are meaningful; the
    # executor's model, not this sketch, decides what is expected
    sk = [{"st": None, "launched_at": None} for _ in wrappers]
    t = 0.0
    cur = 0
    style = rng.choice(["lifecycle", "lifecycle", "chaos"])
    while len(ops) < nops:
        if two and rng.random() < 0.3:
            cur = 1 - cur
        w = wrappers[cur]
        s = sk[cur]
        kind = w["kind"]
        nseq = len(w.get("seqs", {}).get("rows", [0, 0]))
        r = rng.random()
        if s["st"] is None:
            ops.append({"w": cur, "op": "create"})
            s["st"] = CREATED
            continue
        if r < 0.16:
            ops.append({"op": "advance", "dt": rng.choice([0.05, 0.25, 1.0, 2.5, 10.0, 60.0, 600.0])})
            continue
        if r < 0.19:
            # the caller's own code changes the working directory between two wrapper calls
            ops.append({"op": "chdir", "dir": rng.choice(["cwd0", "cwd1", "cwd1"])})
            continue
        if r < 0.20:
            ops.append({"op": "cleanup_helper", "delete": rng.random() < 0.5, "already_gone": rng.random() < 0.3, "mode": rng.choice(["w", "r", "w+b"])})
            continue
        if kind not in ("stublocal", "stubpoll") and rng.random() < 0.02 and w["script"]["dur"] is not None:
            ops.append({"w": cur, "op": "align"})
            continue
        if style == "chaos":
            choice = rng.choice(["start", "join", "cancel", "state", "setter", "getter", "result"])
        else:
            if s["st"] == CREATED:
                choice = rng.choices(["setter", "start", "state", "getter", "join", "result", "cancel"], [4, 5, 1, 1, 0.5, 0.5, 0.5])[0]
            elif s["st"] == RUNNING:
                choice = rng.choices(["join", "cancel", "state", "getter", "setter", "start", "result"], [5, 2, 3, 3, 0.7, 0.5, 1])[0]
            else:
                choice = rng.choices(["result", "getter", "state", "join", "cancel", "start", "setter"], [5, 3, 1, 0.7, 0.7, 0.5, 0.5])[0]
        if choice == "setter" and not SETTERS[kind]:
            choice = "state"
        if choice == "result" and not RESULTS[kind]:
            choice = "getter"
        if choice == "getter" and kind == "stubpoll":
            choice = "app_url" if w.get("web") and rng.random() < 0.5 else "state"
        if choice == "start":
            ops.append({"w": cur, "op": "start"})
            if s["st"] == CREATED:
                s["st"] = RUNNING
        elif choice == "join":
            hang = w["script"]["dur"] is None
            to = rng.choice([None, None, 0.5, 3.0, 45.0, 1000.0, 0, 3, 0.0])
            if hang and to is None:
                to = rng.choice([0.5, 3.0, 45.0])
            if hang and s["st"] != RUNNING and to is None:
                to = 3.0
            ops.append({"w": cur, "op": "join", "timeout": to})
            if faulty and rng.random() < 0.08:
                # a signal interrupts the caller while it waits in join(), this many simulated seconds into the wait
                ops[-1]["intr"] = rng.choice([0.0, 0.05, 0.3, 2.0, 20.0])
                ops[-1]["intr_class"] = rng.choice(["KeyboardInterrupt", "KeyboardInterrupt", "SystemExit", "BaseException"])
                # where it strikes: inside the blocking wait, or later, while join() evaluates the program's output
                ops[-1]["intr_where"] = rng.choice(["wait", "wait", "evaluate"])
            elif s["st"] == RUNNING:
                s["st"] = "ENDED"
        elif choice == "cancel":
            ops.append({"w": cur, "op": "cancel"})
            if s["st"] == RUNNING:
                s["st"] = "ENDED"
        elif choice == "state":
            ops.append({"w": cur, "op": "state"})
        elif choice == "app_url":
            ops.append({"w": cur, "op": "app_url"})
        elif choice == "setter":
            o = _gen_setter(rng, kind, nseq)
            o["w"] = cur
            ops.append(o)
        elif choice == "getter":
            ops.append({"w": cur, "op": rng.choice(LOCAL_GETTERS)})
        elif choice == "result":
            ops.append({"w": cur, "op": rng.choice(RESULTS[kind])})
    # a join(None) is never generated against a hanging tool: patch the remaining cases
    for o in ops:
        if o.get("op") == "join" and o["timeout"] is None and wrappers[o["w"]]["script"]["dur"] is None:
            o["timeout"] = 3.0
    return {"cfg": cfg, "ops": ops}


# ================================================================================================
# execution
# ================================================================================================

class _RuleHit(InvalidSpec):
    """Carries a RuleViolationError of a WebApp wrapper past the per-operation models to dispatch_web()
    (core.call lets InvalidSpec through)."""

    def __init__(self, exc):
        super().__init__("rule violation")
        self.exc = exc


class WRec:
    def __init__(self, idx, wspec):
        self.idx = idx
        self.spec = wspec
        self.kind = wspec["kind"]
        self.script = wspec["script"]
        self.tool = sw.make_tool(self.kind) if self.kind != "stubpoll" else None
        self.app = None
        self.state = None  # model state
        self.ended = False
        self.exit_at = None
        self.started_at = None
        self.procs = []
        self.launch_attempts = []
        self.reported_after_failure = None
        self.poll_instant, self.poll_count = None, 0
        self.files = set()
        self.cleanups = 0
        self.extras = []
        self.exec_dir = None
        self.settings = {}
        self.seqs = None
        self.matrix = None
        self.expected_in = None
        self.mapped = False  # sequences handed to the program as stand-in protein sequences
        self.reports_checked = 0
        self.job = None  # stubpoll


def _make_sequences(sspec, ctor_fault):
    from biotite.sequence import Alphabet, GeneralSequence, NucleotideSequence, ProteinSequence

    t = sspec["type"]
    rows = sspec["rows"]
    if sspec.get("prefix"):
        from biotite.sequence import LetterAlphabet

        full = (ProteinSequence.alphabet if t == "protein" else NucleotideSequence.alphabet_amb).get_symbols()
        alph = LetterAlphabet(full[:sspec["prefix"]])
        seqs = [GeneralSequence(LetterAlphabet(full[:sspec["prefix"]]) if sspec.get("alph_objects") == "equal_copies" else alph, r)
                for r in rows]
    elif t == "protein":
        seqs = [ProteinSequence(r) for r in rows]
    elif t == "nuc":
        seqs = [NucleotideSequence(r, ambiguous=False) for r in rows]
    elif t == "nuc_amb":
        seqs = [NucleotideSequence(r, ambiguous=True) for r in rows]
    elif sspec.get("alph_objects") == "equal_copies":
        seqs = [GeneralSequence(Alphabet(list(sspec["alphabet"])), [sspec["alphabet"][c] for c in r]) for r in rows]
    else:
        alph = Alphabet(sspec["alphabet"])
        seqs = [GeneralSequence(alph, [sspec["alphabet"][c] for c in r]) for r in rows]
    if sspec.get("alph_objects") == "equal_copies" and t != "custom" and not sspec.get("prefix"):
        import copy

        seqs = [copy.deepcopy(s) if i % 2 else s for i, s in enumerate(seqs)]
    if sspec.get("container") == "tuple" and ctor_fault != "mixed_alphabets":
        seqs = tuple(seqs)
    if ctor_fault == "one_seq":
        seqs = seqs[:1]
    elif ctor_fault == "mixed_alphabets":
        if t == "protein":
            seqs[-1] = NucleotideSequence("ACGT")
        else:
            seqs[-1] = ProteinSequence("ACDE")
    return seqs


def _make_matrix(mspec, seqs):
    import random

    from biotite.sequence.align import SubstitutionMatrix

    alph = seqs[0].get_alphabet()
    n = len(alph)
    rng = random.Random(f"matrix:{mspec['seed']}")
    m = np.zeros((n, n), dtype=np.int32)
    for i in range(n):
        for j in range(i, n):
            m[i, j] = m[j, i] = rng.randint(-9, 15)
    if mspec.get("asym") and n >= 2:
        m[0, 1] = m[1, 0] + 1
    return SubstitutionMatrix(alph, alph, m)


def _expected_input_rows(seqs, sspec, mapped=None):
    """What the external tool must receive: the symbols of every sequence; sequences the program has no mode for
    (custom alphabets, nucleotides for a protein-only program) mapped onto the amino-acid alphabet code by code
    (computed without biotite's map_sequence)."""
    from biotite.sequence import ProteinSequence

    if mapped is None:
        mapped = sspec["type"] == "custom"
    if mapped:
        prot = ProteinSequence.alphabet.get_symbols()
        if sspec["type"] == "custom":
            return ["".join(prot[c] for c in r) for r in sspec["rows"]]
        return ["".join(prot[int(c)] for c in q.code) for q in seqs]
    return list(sspec["rows"])


class Sim:
    real = False  # RealSim (conformance mode) sets this: real subprocess.Popen, gated fake executables

    def settle(self):
        """Real mode: children whose scripted exit instant has been reached are released and reaped-to-zombie."""
        if not self.real:
            return
        due = [p for r in self.recs for p in r.procs if isinstance(p, RealProc) and not p.released and p.exit_at <= self.world.now]
        for p in sorted(due, key=lambda p: p.exit_at):
            p.release()

    def __init__(self, spec, keep_log):
        self.spec = spec
        self.cfg = spec["cfg"]
        self.res = RunResult()
        self.log = EventLog(spec.get("seed", "replay"))
        self.log.keep = keep_log
        self.root = tempfile.mkdtemp(prefix="c20-")
        self.world = sw.World(self.root, self.res.stats)
        self.recs = [WRec(i, w) for i, w in enumerate(self.cfg["wrappers"])]
        self.cwd0 = os.path.join(self.root, "cwd0")
        self.step = -1
        self.launched_any = False
        for d in ("cwd0", "cwd1", "exec", "exec2", "tmp"):
            os.makedirs(os.path.join(self.root, d))
        self.cur_cwd = self.cwd0
        self.tmp = os.path.join(self.root, "tmp")
        self.known = []
        self.stray = set()

    # ---- helpers ---------------------------------------------------------------------------------
    def rel(self, p):
        if isinstance(p, str) and p.startswith(self.root):
            return "$ROOT" + p[len(self.root):]
        return p

    def relt(self, text):
        return text.replace(self.root, "$ROOT") if isinstance(text, str) else text

    def fail(self, sig, **detail):
        detail = {k: (self.relt(v) if isinstance(v, str) else v) for k, v in detail.items()}
        raise Violation(sig, detail, self.step)

    def listing(self):
        out = []
        for name in sorted(os.listdir(self.tmp)):
            p = os.path.join(self.tmp, name)
            try:
                out.append((name, os.path.getsize(p)))
            except OSError:
                out.append((name, -1))
        return out

    def adopt(self, name, rec):
        """Ownership of a temp file that appeared: the wrapper being called, else (a child wrote it while time
        passed) the wrapper owning a file whose name it extends, e.g. MAFFT's <input>.tree."""
        path = os.path.join(self.tmp, name)
        if any(path in r.files for r in self.recs):
            return
        if rec is None:
            for r in self.recs:
                if any(path.startswith(f) for f in r.files):
                    rec = r
                    break
        if rec is not None:
            rec.files.add(path)
        else:
            self.stray.add(path)

    def snapshot(self, rec):
        app = rec.app
        snap = {"cwd": os.getcwd(), "files": self.listing(), "alive": [p.alive() for p in self.world.procs],
                "state": str(getattr(app, "_state", None)), "cleanups": rec.cleanups, "now": self.world.now,
                "command": list(getattr(app, "_command", None) or []),
                "opts": list(getattr(app, "_options", []) or []), "execdir": getattr(app, "_exec_dir", None)}
        return snap

    # ---- invariants after every operation -----------------------------------------------------------
    def check_invariants(self, after_op):
        cwd = os.getcwd()
        if cwd != self.cur_cwd:
            self.fail("resource:cwd-changed", op=after_op, cwd=cwd, expected=self.cur_cwd)
        for rec in self.recs:
            if rec.app is None or rec.state is None:
                continue
            if rec.ended:
                alive = [p.pid for p in rec.procs if p.alive()]
                if alive:
                    self.fail("resource:child-left-running", op=after_op, kind=rec.kind, how=rec.end_how)
                left = sorted(self.rel(f) for f in rec.files if os.path.exists(f))
                if left:
                    self.fail("resource:temp-files-left", op=after_op, kind=rec.kind, how=rec.end_how, count=len(left),
                              files=[os.path.splitext(f)[1] for f in left])
                if rec.cleanups != 1:
                    self.fail("resource:cleanup-count", op=after_op, kind=rec.kind, how=rec.end_how, count=rec.cleanups)
            else:
                if rec.cleanups != 0:
                    self.fail("resource:cleanup-before-end", op=after_op, kind=rec.kind, state=rec.state, count=rec.cleanups)
                missing = sorted(self.rel(f) for f in rec.base_files if not os.path.exists(f))
                if missing:
                    self.fail("resource:live-wrapper-lost-files", op=after_op, kind=rec.kind, state=rec.state,
                              files=[os.path.splitext(f)[1] for f in missing])
        owned_live = set()
        for rec in self.recs:
            if rec.app is not None and not rec.ended:
                owned_live |= rec.files
        orphans = sorted(n for n in os.listdir(self.tmp) if os.path.join(self.tmp, n) not in owned_live)
        if orphans:
            self.fail("resource:temp-files-left", op=after_op, kind="?", how="no live wrapper owns them", count=len(orphans),
                      files=[os.path.splitext(f)[1] for f in orphans])
        # tool reports: the external program must have received what the model says was configured
        for rec in self.recs:
            for p in rec.procs:
                if p.tool_report is not None and not getattr(p, "report_checked", False):
                    p.report_checked = True
                    self.check_tool_report(rec, p)

    def check_tool_report(self, rec, p):
        rep = p.tool_report
        exp_cwd = rec.exec_dir_path or getattr(rec, "created_cwd", self.cwd0)
        if rep["cwd"] != exp_cwd:
            self.fail("launch:wrong-exec-dir", kind=rec.kind, got=rep["cwd"], expected=exp_cwd)
        if rep["extras"] != rec.extras:
            self.fail("launch:additional-options", kind=rec.kind, got=rep["extras"], expected=rec.extras)
        if rec.extras and p.args[1:1 + len(rec.extras)] != rec.extras:
            self.fail("launch:additional-options-position", kind=rec.kind, argv=[self.relt(a) for a in p.args])
        if p.args[0] != rec.bin:
            self.fail("launch:bin-path", kind=rec.kind, got=p.args[0], expected=rec.bin)
        if rec.kind == "stublocal":
            if [a for a in p.args[1:] if not a.startswith("--x-")] != rec.settings.get("arguments", []):
                self.fail("launch:arguments", kind=rec.kind, argv=p.args)
            if not self.real and p.stdin is not rec.settings.get("stdin"):
                self.fail("launch:stdin", kind=rec.kind)
            return
        if rep.get("tool_error"):
            self.fail("launch:tool-rejected-command", kind=rec.kind, error=rep["tool_error"],
                      argv=[self.relt(a) for a in p.args])
        got = [tuple(r) for r in rep["input"]]
        exp = [(str(i), s) for i, s in enumerate(rec.expected_in)]
        if got != exp:
            self.fail("launch:tool-input", kind=rec.kind, got=got, expected=exp)
        self.res.stats["probe:tool-input-verified"] += 1
        if rec.mapped:
            self.res.stats["probe:mapped-alphabet-verified"] += 1
        opts, flags = rep["opts"], set(rep["flags"])
        st = rec.seqtype
        k = rec.kind
        if k == "clustalo":
            if opts.get("--seqtype") != ("Protein" if st == "protein" else "DNA"):
                self.fail("launch:seqtype", kind=k, got=opts.get("--seqtype"), expected=st)
            full = rec.settings.get("full", False)
            if full != ("--full" in flags) or full != ("--distmat-out" in opts):
                self.fail("launch:full-matrix", kind=k, flags=sorted(flags))
            if ("--guidetree-in" in opts) != ("tree" in rec.settings):
                self.fail("launch:guide-tree-in", kind=k)
            if "tree" in rec.settings:
                from biotite.sequence.phylo import Tree

                t = Tree.from_newick(rep["guidetree_in"].strip())
                if t != rec.settings["tree"]:
                    self.fail("launch:guide-tree-in-content", kind=k)
            if ("--distmat-in" in opts) != ("distmat" in rec.settings):
                self.fail("launch:distmat-in", kind=k)
            if "distmat" in rec.settings:
                lines = rep["distmat_in"].strip().split("\n")
                n = len(rec.seqs)
                ok = lines[0].strip() == str(n) and len(lines) == n + 1
                if ok:
                    for i, l in enumerate(lines[1:]):
                        parts = l.split()
                        ok = ok and parts[0] == str(i) and np.allclose([float(x) for x in parts[1:]], rec.settings["distmat"][i], atol=1e-4)
                if not ok:
                    self.fail("launch:distmat-in-content", kind=k, got=rep["distmat_in"])
        elif k == "muscle3":
            if opts.get("-seqtype") != ("protein" if st == "protein" else "dna"):
                self.fail("launch:seqtype", kind=k, got=opts.get("-seqtype"), expected=st)
            gp = rec.settings.get("gap")
            if gp is None:
                if "-gapopen" in opts or "-gapextend" in opts:
                    self.fail("launch:gap-penalty", kind=k, got=opts)
            else:
                go, ge = opts.get("-gapopen"), opts.get("-gapextend")
                if go is None or ge is None or not (abs(float(go) - gp[0]) <= 0.05 and abs(float(ge) - gp[1]) <= 0.05):
                    self.fail("launch:gap-penalty", kind=k, got=[opts.get("-gapopen"), opts.get("-gapextend")], expected=list(gp))
            self.check_matrix(rec, rep, "-matrix" in opts)
        elif k == "muscle5":
            if ("-amino" in flags) != (st == "protein") or ("-nt" in flags) != (st != "protein"):
                self.fail("launch:seqtype", kind=k, flags=sorted(flags), expected=st)
            mode = "-super5" if rec.settings.get("super5") else "-align"
            if mode not in opts:
                self.fail("launch:mode", kind=k, expected=mode)
            for key, name in (("-threads", "threads"), ("-consiters", "consiters"), ("-refineiters", "refineiters")):
                v = rec.settings.get(name)
                if (v is None) != (key not in opts) or (v is not None and opts[key] != str(v)):
                    self.fail("launch:option", kind=k, option=key, got=opts.get(key), expected=v)
        elif k == "mafft":
            if ("--amino" in flags) != (st == "protein") or ("--nuc" in flags) != (st != "protein"):
                self.fail("launch:seqtype", kind=k, flags=sorted(flags), expected=st)
            self.check_matrix(rec, rep, "--aamatrix" in opts)
        elif k == "stubmsa":
            if opts.get("-seqtype") != st:
                self.fail("launch:seqtype", kind=k, got=opts.get("-seqtype"), expected=st)
            self.check_matrix(rec, rep, "-matrix" in opts)

    def check_matrix(self, rec, rep, given):
        if (rec.matrix is not None) != given:
            self.fail("launch:matrix-option", kind=rec.kind, given=given)
        if rec.matrix is None:
            return
        from biotite.sequence import ProteinSequence

        cols, m = rep["matrix_in"]
        sm = rec.matrix.score_matrix()
        if rec.mapped:
            syms = [str(s) for s in ProteinSequence.alphabet.get_symbols()]
        else:
            syms = [str(s) for s in rec.matrix.get_alphabet1().get_symbols()]
        if cols != syms:
            self.fail("launch:matrix-content", kind=rec.kind, what="column symbols", got=cols)
        n = sm.shape[0]
        for i, a in enumerate(syms):
            for j, b in enumerate(syms):
                e = int(sm[i, j]) if (i < n and j < n) else 0
                if m.get((a, b)) != e:
                    self.fail("launch:matrix-content", kind=rec.kind, pair=[a, b], got=m.get((a, b)), expected=e)
        self.res.stats["probe:matrix-file-verified"] += 1

    # ---- operations ------------------------------------------------------------------------------------
    def run(self):
        world = self.world
        os.chdir(self.cwd0)
        for at, d in self.cfg.get("jumps", []):
            def jump(d=d):
                world.offset += d
                world.jumped = True
                self.res.stats["fault:clock-jump"] += 1
            world.after(sw.EPOCH + at, jump)
        with warnings.catch_warnings():
            warnings.simplefilter("ignore")
            for i, op in enumerate(self.spec["ops"]):
                self.step = i
                self.do(op)
        return

    def do(self, op):
        name = op["op"]
        self.res.n_ops += 1
        self.res.stats[f"op:{name}"] += 1
        if name == "advance":
            before = [(r, r.exit_at is not None and r.state == RUNNING and self.world.now < r.exit_at) for r in self.recs]
            listing0 = set(os.listdir(self.tmp))
            self.world.advance(op["dt"])
            self.settle()
            for n in set(os.listdir(self.tmp)) - listing0:
                self.adopt(n, None)
            for r, pending in before:
                if pending and self.world.now >= r.exit_at:
                    self.res.stats["probe:exit-between-calls"] += 1
            self.log.add({"i": self.step, "op": "advance", "dt": op["dt"], "now": round(self.world.now - sw.EPOCH, 3)})
            self.check_invariants("advance")
            return
        if name == "cleanup_helper":
            self.op_cleanup_helper(op)
            self.check_invariants("cleanup_helper")
            return
        if name == "chdir":
            self.cur_cwd = os.path.join(self.root, op["dir"])
            os.chdir(self.cur_cwd)
            self.res.stats["probe:cwd-changed-between-calls"] += 1
            self.log.add({"i": self.step, "op": "chdir", "dir": op["dir"]})
            return
        w = op["w"]
        if w >= len(self.recs):
            return
        rec = self.recs[w]
        if name == "create":
            if rec.app is not None or rec.state == DEAD:
                return
            self.op_create(rec)
            self.check_invariants("create")
            return
        if name == "align":
            self.op_align(rec)
            self.check_invariants("align")
            return
        if rec.app is None:
            return  # wrapper never created (after shrinking) or its constructor was rejected
        if len([r for r in self.recs if r.app is not None and not r.ended and r.state in (RUNNING, FINISHED)]) >= 2:
            self.res.stats["probe:two-wrappers-interleaved"] += 1
        pre = rec.state
        self.world.current = rec
        listing0 = set(os.listdir(self.tmp))
        try:
            outcome = self.dispatch(rec, op)
        finally:
            self.world.current = None
            self.world.interrupt_at = None  # an interrupt armed for this call never outlives it
            if rec.app is not None:
                rec.app.__dict__.pop("evaluate", None)  # nor does an interrupt armed for its evaluate()
            # files that appear during a call on this wrapper belong to it (whenever the code chooses to create them)
            for n in set(os.listdir(self.tmp)) - listing0:
                self.adopt(n, rec)
        self.res.features.add((rec.kind, name, pre, outcome))
        self.log.add({"i": self.step, "w": w, "op": name, "pre": pre, "out": outcome, "post": rec.state,
                      "now": round(self.world.now - sw.EPOCH, 3), "tmp": len(os.listdir(self.tmp))})
        self.check_invariants(name)

    def op_cleanup_helper(self, op):
        """cleanup_tempfile(): the public helper the wrappers use; whatever kind of NamedTemporaryFile it gets,
        afterwards the file is closed and gone, and an already deleted file is not an error."""
        from biotite.application.localapp import cleanup_tempfile

        f = tempfile.NamedTemporaryFile(op["mode"], suffix=".helper", delete=op["delete"])
        path = f.name
        if op["already_gone"]:
            os.remove(path)
        st, v = call(cleanup_tempfile, f)
        if st == "exc":
            try:
                f.close()
            except Exception:  # noqa: BLE001
                pass
            if os.path.exists(path):
                os.remove(path)
            self.fail("helper:cleanup_tempfile-raised", got=exc_name(v), delete=op["delete"], already_gone=op["already_gone"])
        if os.path.exists(path):
            os.remove(path)
            self.fail("helper:cleanup_tempfile-left-file", delete=op["delete"])
        if not f.closed:
            f.close()
            self.fail("helper:cleanup_tempfile-left-open", delete=op["delete"])
        self.log.add({"i": self.step, "op": "cleanup_helper", "out": "ok"})

    # -- construction
    def op_create(self, rec):
        from biotite.application import VersionError
        import subprocess

        k = rec.kind
        ws = rec.spec
        before = set(os.listdir(self.tmp))
        self.world.current = rec
        self.world.version_script = ws.get("version")
        expected_exc = None
        try:
            if k == "stublocal":
                rec.bin = ws["bin"]
                if self.real:
                    rec.bin = self.real_bin(rec)
                st, val = call(make_stub_local, rec.bin, rec.script)
            elif k == "stubpoll":
                rec.bin = None
                st, val = call(make_stub_poll, self, rec)
            else:
                seqs = _make_sequences(ws["seqs"], ws.get("ctor_fault"))
                rec.seqs = seqs
                t = ws["seqs"]["type"]
                matrix = None
                if ws.get("matrix") is not None and not ws.get("ctor_fault"):
                    matrix = _make_matrix(ws["matrix"], seqs)
                cls = app_class(k) if k != "stubmsa" else make_stub_msa_class(ws.get("flags", ALL_ABILITIES))
                default_bin = {"clustalo": "clustalo", "muscle3": "muscle", "muscle5": "muscle", "mafft": "mafft", "stubmsa": "stubmsa"}[k]
                rec.bin = ws["bin"] or default_bin
                # documented: any iterable of sequences; a generator can be consumed only once
                given = (x for x in seqs) if ws["seqs"].get("container") == "generator" else seqs
                rec.seqs = list(seqs)
                args = [given] + ([ws["bin"]] if ws["bin"] else [])
                if self.real:
                    rec.bin = self.real_bin(rec)
                    args = [given, rec.bin]
                    self.ctrl_for(rec)  # the version probe of the constructor reads the banner from it
                kwargs = {}
                if k != "muscle5" and matrix is not None:
                    kwargs["matrix"] = matrix
                # model: which rejection is documented for this construction?
                v = ws.get("version")
                if v and v["kind"] == "enoent":
                    expected_exc = (FileNotFoundError,)
                elif v and v["kind"] == "garbage":
                    expected_exc = (subprocess.SubprocessError,)
                elif v and v["kind"] == "wrong":
                    expected_exc = (VersionError,)
                elif ws.get("ctor_fault"):
                    expected_exc = (ValueError,)
                elif matrix is not None and ws["matrix"].get("asym") and k in ("muscle3", "mafft", "stubmsa"):
                    expected_exc = (ValueError,)
                elif k == "stubmsa":
                    # documented in MSAApp: a sequence type the program has no mode for is mapped onto protein
                    # sequences if the program aligns proteins with a custom matrix; otherwise it is refused
                    ab = ws.get("flags", ALL_ABILITIES)
                    rec.mapped = False
                    if t == "protein" and ab["prot"]:
                        if matrix is not None and not ab["prot_matrix"]:
                            expected_exc = (TypeError,)
                    elif t in ("nuc", "nuc_amb") and ab["nuc"]:
                        if matrix is not None and not ab["nuc_matrix"]:
                            expected_exc = (TypeError,)
                    elif t == "protein":
                        expected_exc = (TypeError,)  # a protein alphabet cannot be mapped onto itself
                    elif not ab["prot"] or not ab["prot_matrix"] or matrix is None or \
                            (t == "custom" and len(ws["seqs"]["alphabet"]) > 24):
                        expected_exc = (TypeError,)
                    else:
                        rec.mapped = True
                elif t == "custom" and k in ("clustalo", "muscle5"):
                    expected_exc = (TypeError,)
                elif t == "custom" and len(ws["seqs"]["alphabet"]) > 24:
                    expected_exc = (TypeError,)
                elif t == "custom" and matrix is None:
                    expected_exc = (TypeError,)
                elif t in ("nuc", "nuc_amb") and matrix is not None and k == "muscle3":
                    expected_exc = (TypeError,)
                rec.matrix = matrix if k in ("muscle3", "mafft", "stubmsa") else None
                st, val = call(cls, *args, **kwargs)
                if v and not self.real:
                    if getattr(self.world, "version_args", None) != [rec.bin, "-version"]:
                        self.fail("create:version-probe-args", kind=k, got=getattr(self.world, "version_args", None))
        finally:
            self.world.current = None
        if expected_exc is not None:
            if st == "ok":
                self.fail("create:accepted-invalid-input", kind=k, expected=[e.__name__ for e in expected_exc])
            if not isinstance(val, expected_exc):
                self.fail("create:wrong-exception", kind=k, got=exc_name(val), expected=[e.__name__ for e in expected_exc], msg=str(val)[:200])
            rec.state = DEAD
            self.res.stats["fault:constructor-rejected"] += 1
            self.log.add({"i": self.step, "w": rec.idx, "op": "create", "out": "rejected:" + exc_name(val)})
            self.res.features.add((k, "create", None, "rejected:" + exc_name(val)))
            # a rejected construction has no run that could end; files it may have created are removed by the harness
            for n in set(os.listdir(self.tmp)) - before:
                os.remove(os.path.join(self.tmp, n))
            return
        if st == "exc":
            self.fail("create:unexpected-exception", kind=k, got=exc_name(val), msg=str(val)[:300])
        app = val
        rec.app = app
        rec.state = CREATED
        rec.files = {os.path.join(self.tmp, n) for n in set(os.listdir(self.tmp)) - before}
        rec.base_files = set(rec.files)
        if k == "mafft":
            rec.files.add(app.get_input_file_path() + ".tree")
        if k not in ("stublocal", "stubpoll"):
            t = ws["seqs"]["type"]
            if k != "stubmsa":
                rec.mapped = t == "custom"
            rec.expected_in = _expected_input_rows(rec.seqs, ws["seqs"], rec.mapped)
            rec.seqtype = "protein" if (t == "protein" or rec.mapped) else "nucleotide"
            if rec.mapped and t != "custom":
                self.res.stats["probe:nucleotides-mapped-for-protein-only-program"] += 1
        rec.exec_dir_path = None
        rec.created_cwd = self.cur_cwd  # documented default execution directory: the cwd at creation time
        rec.end_how = None
        # count entries into the documented protected method clean_up()
        orig = app.clean_up

        def counted():
            rec.cleanups += 1
            return orig()

        app.clean_up = counted
        self.log.add({"i": self.step, "w": rec.idx, "op": "create", "out": "ok", "files": len(rec.files)})
        self.res.features.add((k, "create", None, "ok"))

    # -- everything else
    def dispatch(self, rec, op):
        try:
            if rec.spec.get("web"):
                return self.dispatch_web(rec, op)
            return self.dispatch_plain(rec, op)
        except sw.SimDeadlock as e:
            # The generator never asks for a call that blocks by specification (a join without timeout on a program that
            # never exits is refused beforehand as InvalidSpec). If the simulator still finds the code under test waiting
            # for ever - polling without end, or blocked on a child that will not exit although a timeout was given -
            # the call would never return: bounded liveness is violated
            self.fail("liveness:call-never-returns", kind=rec.kind, op=op["op"], timeout=op.get("timeout"), why=str(e))

    def dispatch_web(self, rec, op):
        """WebApp flavour of the polling wrapper. Its is_finished() contacts a simulated server that allows one contact
        per `gap` simulated seconds and reports anything closer through WebApp.violate_rule(). Documented contract of
        webapp.py: with obey_rules the call raises RuleViolationError (custom or default message), without it nothing
        is raised. Model: a rule violation is a retryable error of that one call - it ends no run, so the wrapper
        keeps its state, its files and its (zero) clean-up count, and later calls behave as if it had not happened."""
        from biotite.application import RuleViolationError

        web = rec.spec["web"]
        rec.web_flag = 0
        snap = self.snapshot(rec)
        own_files = sorted(f for f in rec.files if os.path.exists(f))
        model_state = rec.state
        try:
            out = self.dispatch_plain(rec, op, web=True)
        except _RuleHit as hit:
            self.res.stats["fault:web-rule-violation-raised"] += 1
            if not web["obey"]:
                self.fail("web:rule-violation-raised-although-rules-are-not-obeyed", op=op["op"])
            if not rec.web_flag:
                self.fail("web:rule-violation-without-violation", op=op["op"])
            if type(hit.exc) is not RuleViolationError:
                self.fail("web:wrong-exception-class", got=exc_name(hit.exc))
            exp_msg = web["msg"] if web["msg"] is not None else "The user guidelines would be violated"
            if str(hit.exc) != exp_msg:
                self.fail("web:wrong-message", got=str(hit.exc)[:100], expected=exp_msg)
            snap2 = self.snapshot(rec)
            # simulated time may have passed inside join(): other wrappers' children may have exited or written files
            # meanwhile, so the comparison is restricted to what belongs to this wrapper
            changed = [k for k in snap if snap[k] != snap2[k] and k not in ("now", "files", "alive")]
            if sorted(f for f in rec.files if os.path.exists(f)) != own_files:
                changed.append("own-files")
            if changed:
                self.fail("web:rule-violation-with-side-effects", op=op["op"], changed=changed)
            rec.state = model_state
            return "RuleViolationError"
        if rec.web_flag and web["obey"]:
            self.fail("web:rule-violation-swallowed", op=op["op"], outcome=out)
        if rec.web_flag:
            self.res.stats["fault:web-rule-violation-ignored"] += 1
        return out

    def dispatch_plain(self, rec, op, web=False):
        from biotite.application import AppStateError

        name = op["op"]
        app = rec.app
        cls = self.op_class(rec, name)
        fn, args, kwargs = self.bind(rec, op)
        if fn is None:
            return "n/a"
        if web:
            from biotite.application import RuleViolationError

            inner = fn

            def fn(*a, **k):
                try:
                    return inner(*a, **k)
                except RuleViolationError as e:
                    raise _RuleHit(e) from None
        if rec.state == LAUNCH_FAILED:
            # The statement does not say which state a wrapper is in after a failed launch. Whatever the wrapper itself
            # reports through get_app_state() is taken at its word: if it says CANCELLED, every further call follows
            # the CANCELLED row of the life cycle (get_command allowed and must work, everything else that is
            # state-checked refused with a state error and without side effects). Any other report: resources only.
            if rec.reported_after_failure == CANCELLED and cls != "state":
                allowed = ALLOWED.get(cls)
                if allowed is not None and CANCELLED not in allowed:
                    snap = self.snapshot(rec)
                    st, val = call(fn, *args, **kwargs)
                    if st == "ok":
                        self.fail("legality:illegal-call-succeeded", kind=rec.kind, op=name, state="CANCELLED(after failed launch)")
                    if not isinstance(val, AppStateError):
                        self.fail("legality:wrong-exception-for-illegal-call", kind=rec.kind, op=name,
                                  state="CANCELLED(after failed launch)", got=exc_name(val), msg=str(val)[:200])
                    if snap != self.snapshot(rec):
                        self.fail("legality:state-error-with-side-effects", kind=rec.kind, op=name, state="CANCELLED(after failed launch)")
                    self.res.stats["probe:state-error-after-failed-launch"] += 1
                    return "after-launch-failure:AppStateError"
                if cls == "get_command":
                    st, val = call(fn, *args, **kwargs)
                    if st == "exc":
                        self.fail("getter:raised", kind=rec.kind, op="get_command", got=exc_name(val), state="CANCELLED(after failed launch)")
                    attempts = [a for a in getattr(rec, "launch_attempts", []) if getattr(a, "args", None)]
                    if not isinstance(val, str) or (attempts and val != " ".join(attempts[-1].args)):
                        self.fail("getter:wrong-value", kind=rec.kind, op="get_command", got=self.relt(str(val))[:200],
                                  expected=self.relt(" ".join(attempts[-1].args))[:200] if attempts else "a string")
                    self.res.stats["probe:get_command-after-failed-launch"] += 1
                    return "after-launch-failure:ok"
            st, val = call(fn, *args, **kwargs)
            return "after-launch-failure:" + (st if st == "ok" else exc_name(val))
        allowed = ALLOWED.get(cls)
        legal = True if allowed is None else (rec.state in allowed)
        either = False
        exited_unrefreshed = rec.state == RUNNING and rec.exit_at is not None and self.world.now >= rec.exit_at \
            and not rec.script.get("big_output")  # blocked on a full pipe until join() reads it: still RUNNING
        if exited_unrefreshed and cls in ("get_exit_code", "get_stdout", "get_stderr"):
            either = True
        if not legal and not either:
            snap = self.snapshot(rec)
            st, val = call(fn, *args, **kwargs)
            if st == "ok":
                self.fail("legality:illegal-call-succeeded", kind=rec.kind, op=name, state=rec.state)
            if not isinstance(val, AppStateError):
                self.fail("legality:wrong-exception-for-illegal-call", kind=rec.kind, op=name, state=rec.state,
                          got=exc_name(val), msg=str(val)[:200])
            snap2 = self.snapshot(rec)
            if exited_unrefreshed and snap["state"].endswith("RUNNING") and snap2["state"].endswith("FINISHED"):
                # composing the error message refreshes the state (get_app_state); a refresh after the
                # child's exit is a legal life-cycle step, not a side effect of the rejected call
                rec.state = FINISHED
                snap2["state"] = snap["state"]
            if snap != snap2:
                diff = [k for k in snap if snap[k] != snap2[k]]
                self.fail("legality:state-error-with-side-effects", kind=rec.kind, op=name, state=rec.state, changed=diff)
            self.res.stats["probe:state-error-checked"] += 1
            return "AppStateError"
        if either:
            st, val = call(fn, *args, **kwargs)
            self.res.stats["probe:exited-unrefreshed-getter"] += 1
            if st == "exc":
                if not isinstance(val, AppStateError):
                    self.fail("legality:wrong-exception-for-illegal-call", kind=rec.kind, op=name, state=rec.state, got=exc_name(val))
                return "AppStateError(either)"
            rec.state = FINISHED
            self.check_getter(rec, name, val)
            return "ok(either)"
        return getattr(self, "x_" + cls)(rec, op, fn, args, kwargs)

    def op_class(self, rec, name):
        if name in SETTERS.get(rec.kind, []) or name in ("add_options", "set_exec_dir", "full_matrix", "set_distance_matrix",
                                                          "set_guide_tree", "set_gap_penalty", "set_iterations",
                                                          "set_thread_number", "use_super5", "set_arguments", "set_stdin"):
            return "setter"
        if name in ("get_alignment", "get_alignment_order", "get_guide_tree", "get_guide_tree_kmer", "get_distance_matrix", "get_result"):
            return "result"
        return name

    def bind(self, rec, op):
        """Map an op to (callable, args, kwargs) on the real object; None when the wrapper kind has no such call."""
        app = rec.app
        name = op["op"]
        k = rec.kind
        if name == "start":
            return app.start, (), {}
        if name == "join":
            return (app.join, (), {}) if op.get("timeout") is None else (app.join, (), {"timeout": op["timeout"]})
        if name == "cancel":
            return app.cancel, (), {}
        if name == "state":
            return app.get_app_state, (), {}
        if name == "app_url":
            if not rec.spec.get("web"):
                return None, None, None
            return app.app_url, (), {}
        if name in LOCAL_GETTERS:
            if k == "stubpoll":
                return None, None, None
            return getattr(app, name), (), {}
        if name == "get_guide_tree_kmer":
            if k != "muscle3":
                return None, None, None
            return app.get_guide_tree, ("kmer",), {}
        if name in ("get_alignment", "get_alignment_order", "get_guide_tree", "get_distance_matrix", "get_result"):
            if name not in RESULTS[k]:
                return None, None, None
            return getattr(app, name), (), {}
        # setters
        if name not in SETTERS[k]:
            return None, None, None
        if name == "add_options":
            return app.add_additional_options, (list(op["options"]),), {}
        if name == "set_exec_dir":
            return app.set_exec_dir, (os.path.join(self.root, op["dir"]),), {}
        if name == "full_matrix":
            return app.full_matrix_calculation, (), {}
        if name == "set_distance_matrix":
            import random

            r = random.Random(f"dm:{op['seed']}")
            n = max(op["n"], 1)
            m = np.zeros((n, n))
            for i in range(n):
                for j in range(i + 1, n):
                    m[i, j] = m[j, i] = r.randint(1, 999) / 1000.0
            return app.set_distance_matrix, (m,), {}
        if name == "set_guide_tree":
            import random

            from biotite.sequence.phylo import Tree

            r = random.Random(f"gt:{op['seed']}")
            n = max(op["n"], 2)
            order = list(range(n))
            r.shuffle(order)
            t = Tree.from_newick(sw.newick(sw.build_tree(order, r)))
            return app.set_guide_tree, (t,), {}
        if name == "set_gap_penalty":
            v = op["value"]
            if isinstance(v, dict):  # a real-valued numpy scalar (numbers.Real, but not a Python int/float)
                v = getattr(np, v["np"])(v["v"])
            return app.set_gap_penalty, (tuple(v) if isinstance(v, list) else v,), {}
        if name == "set_iterations":
            return app.set_iterations, (), {"consistency": op["consistency"], "refinement": op["refinement"]}
        if name == "set_thread_number":
            return app.set_thread_number, (op["number"],), {}
        if name == "use_super5":
            return app.use_super5, (), {}
        if name == "set_arguments":
            return app.set_arguments, (list(op["arguments"]),), {}
        if name == "set_stdin":
            f = open(os.path.join(self.root, "stdin.txt"), "w+")
            self.open_files.append(f)
            return app.set_stdin, (f,), {}
        return None, None, None

    # -- legal calls ----------------------------------------------------------------------------------------
    def x_setter(self, rec, op, fn, args, kwargs):
        name = op["op"]
        expect = None
        if name == "set_distance_matrix" and op["n"] != len(rec.seqs):
            expect = ValueError
        if name == "set_guide_tree" and max(op["n"], 2) != len(rec.seqs):
            expect = ValueError
        if name == "set_gap_penalty":
            v = op["value"]
            if isinstance(v, dict):
                v = v["v"]
            if isinstance(v, str):
                expect = TypeError
            elif isinstance(v, list):
                if v[0] > 0 or v[1] > 0:
                    expect = ValueError
            elif v > 0:
                expect = ValueError
        snap = self.snapshot(rec)
        st, val = call(fn, *args, **kwargs)
        if expect is not None:
            if st == "ok":
                self.fail("setter:accepted-invalid-argument", kind=rec.kind, op=name, value=op.get("value", op.get("n")))
            if not isinstance(val, expect):
                self.fail("setter:wrong-exception", kind=rec.kind, op=name, got=exc_name(val), expected=expect.__name__)
            if self.snapshot(rec) != snap:
                self.fail("setter:rejected-with-side-effects", kind=rec.kind, op=name)
            self.res.stats["fault:setter-rejected"] += 1
            return "rejected:" + exc_name(val)
        if st == "exc":
            self.fail("setter:unexpected-exception", kind=rec.kind, op=name, got=exc_name(val), msg=str(val)[:200])
        s = rec.settings
        if name == "add_options":
            rec.extras = rec.extras + list(op["options"])
        elif name == "set_exec_dir":
            rec.exec_dir_path = os.path.join(self.root, op["dir"])
        elif name == "full_matrix":
            s["full"] = True
        elif name == "set_distance_matrix":
            s["distmat"] = np.array(args[0])
        elif name == "set_guide_tree":
            s["tree"] = args[0]
        elif name == "set_gap_penalty":
            v = op["value"]
            if isinstance(v, dict):
                v = v["v"]
            s["gap"] = (float(v[0]), float(v[1])) if isinstance(v, list) else (float(v), float(v))
        elif name == "set_iterations":
            if op["consistency"] is not None:
                s["consiters"] = op["consistency"]
            if op["refinement"] is not None:
                s["refineiters"] = op["refinement"]
        elif name == "set_thread_number":
            s["threads"] = op["number"]
        elif name == "use_super5":
            s["super5"] = True
        elif name == "set_arguments":
            s["arguments"] = list(op["arguments"])
        elif name == "set_stdin":
            s["stdin"] = args[0]
        return "ok"

    def check_protected_getters(self, rec):
        """PROTECTED but documented getters of MSAApp: sequence type and the temp-file paths handed to the tool."""
        app = rec.app
        if rec.kind in ("stublocal", "stubpoll") or app is None:
            return
        st, v = call(app.get_seqtype)
        if st == "exc" or v != rec.seqtype:
            self.fail("getter:wrong-value", kind=rec.kind, op="get_seqtype", got=v if st == "ok" else exc_name(v), expected=rec.seqtype)
        st, v = call(lambda: (app.get_input_file_path(), app.get_output_file_path(), app.get_matrix_file_path()))
        if st == "exc":
            self.fail("getter:raised", kind=rec.kind, op="get_*_file_path", got=exc_name(v))
        inp, outp, matp = v
        if not rec.ended and not (inp in rec.files and outp in rec.files):
            self.fail("getter:wrong-value", kind=rec.kind, op="get_*_file_path", got=[self.rel(inp), self.rel(outp)])
        if (matp is not None) != (rec.matrix is not None):
            self.fail("getter:wrong-value", kind=rec.kind, op="get_matrix_file_path", got=self.rel(matp), matrix=rec.matrix is not None)

    def x_state(self, rec, op, fn, args, kwargs):
        self.check_protected_getters(rec)
        st, val = call(fn)
        if st == "exc":
            self.fail("state:get_app_state-raised", kind=rec.kind, got=exc_name(val), state=rec.state)
        if rec.state == RUNNING and rec.exit_at is not None and self.world.now >= rec.exit_at and not rec.script.get("big_output"):
            rec.state = FINISHED
        if getattr(val, "name", str(val)) != rec.state:
            self.fail("state:wrong-state", kind=rec.kind, got=str(val), expected=rec.state)
        return "ok:" + rec.state

    def x_app_url(self, rec, op, fn, args, kwargs):
        st, val = call(fn)
        if st == "exc" or val != rec.spec["web"]["url"]:
            self.fail("web:app_url", got=exc_name(val) if st == "exc" else str(val)[:100], expected=rec.spec["web"]["url"])
        return "ok"

    def x_start(self, rec, op, fn, args, kwargs):
        script = rec.script
        expect_fail = None
        if script.get("disk_full") and rec.kind in ("clustalo", "muscle3", "muscle5", "mafft", "stubmsa"):
            # the wrapper writes the program's input through its temp-file handles before anything else: ENOSPC
            expect_fail = OSError
            self.world.disk_full = True
            self.res.stats["fault:disk-full-at-start"] += 1
        elif rec.kind != "stubpoll" and rec.exec_dir_path is not None and not os.path.isdir(rec.exec_dir_path):
            expect_fail = FileNotFoundError
            self.res.stats["fault:exec-dir-missing"] += 1
        elif rec.kind != "stubpoll" and any("\0" in o for o in rec.extras):
            # refused by Popen's argument checking (ValueError, not an OSError), before the operating system is asked
            expect_fail = ValueError
            self.res.stats["fault:launch-nul-in-argument"] += 1
        elif script["launch"] != "ok":
            expect_fail = {"enoent": FileNotFoundError, "eacces": PermissionError, "eagain": OSError,
                           "interrupt": sw.INJECTED_CLASSES}[script["launch"]]
            if rec.exec_dir_path is not None:
                self.res.stats["probe:launch-failed-with-execdir"] += 1
        elif script.get("post_launch") == "fail" and rec.kind == "stublocal":
            expect_fail = RuntimeError
            self.res.stats["fault:run-fails-after-launch"] += 1
        elif script.get("post_launch") == "interrupt" and rec.kind == "stublocal":
            expect_fail = sw.INJECTED_CLASSES
            self.res.stats["fault:interrupt-after-launch"] += 1
        ctrl = self.ctrl_for(rec) if self.real else None
        try:
            st, val = call(fn)
        finally:
            self.world.disk_full = False  # somebody freed space afterwards
        if self.real and st == "exc" and script.get("post_launch") == "fail" and getattr(rec.app, "_process", None) is not None:
            rec.procs.append(RealProc(rec.app._process, rec, self.world, ctrl))
            for p in rec.procs:
                p.wait_dead()
        if self.real and st == "ok":
            popen = rec.app.get_process()
            if popen is None or not hasattr(popen, "pid"):
                self.fail("start:program-not-launched", kind=rec.kind)
            rec.procs.append(RealProc(popen, rec, self.world, ctrl))
            self.res.stats["sim:popen"] += 1
            if script.get("dur") is None:
                self.res.stats["fault:tool-hangs"] += 1
        elif self.real and expect_fail is not None and script["launch"] != "ok":
            self.res.stats[f"fault:launch-{script['launch']}"] += 1
        if expect_fail is not None:
            if st == "ok":
                self.fail("start:launch-failure-swallowed", kind=rec.kind, launch=script["launch"])
            if not isinstance(val, expect_fail):
                self.fail("start:wrong-exception", kind=rec.kind, got=exc_name(val),
                          expected=getattr(expect_fail, "__name__", "injected interrupt"), msg=str(val)[:200])
            if expect_fail is sw.INJECTED_CLASSES and str(getattr(rec.app, "_state", "")).endswith("CREATED") \
                    and not any(p.alive() for p in rec.procs) and rec.cleanups == 0:
                # an interrupted launch that leaves the wrapper exactly as it was (still CREATED, nothing launched,
                # nothing released) has not started a run; the caller may try again. Accepted next to "the run has
                # ended and everything was released" - what is not accepted is anything in between
                self.res.stats["probe:interrupted-launch-left-created"] += 1
                return "launch-interrupted:still-created"
            rec.state = LAUNCH_FAILED
            rec.ended = True
            rec.end_how = "launch-failure"
            st2, rep = call(rec.app.get_app_state)
            if st2 == "exc":
                self.fail("state:get_app_state-raised", kind=rec.kind, got=exc_name(rep), state="after failed launch")
            rec.reported_after_failure = getattr(rep, "name", str(rep))
            return "launch-failed:" + exc_name(val) + ":" + rec.reported_after_failure
        if st == "exc":
            self.fail("start:unexpected-exception", kind=rec.kind, got=exc_name(val), msg=self.relt(str(val))[:300])
        rec.state = RUNNING
        rec.started_at = self.world.now
        self.launched_any = True
        if rec.kind == "stubpoll":
            if rec.job is None:
                self.fail("start:program-not-launched", kind=rec.kind)
            rec.exit_at = rec.job["exit_at"]
        else:
            if len(rec.procs) != 1:
                self.fail("start:child-count", kind=rec.kind, count=len(rec.procs))
            rec.exit_at = rec.procs[0].exit_at
        return "ok"

    def x_cancel(self, rec, op, fn, args, kwargs):
        exited = rec.exit_at is not None and self.world.now >= rec.exit_at
        st, val = call(fn)
        if self.real:
            for p in rec.procs:
                if not p.released:
                    self.res.stats["sim:children-killed"] += 1
                if not p.wait_dead():
                    self.fail("resource:child-left-running", op="cancel", kind=rec.kind, how="cancel (real process still alive after 10 s)")
        if st == "exc":
            rec.state = CANCELLED
            rec.ended = True
            rec.end_how = "cancel"
            self.fail("cancel:raised", kind=rec.kind, got=exc_name(val), msg=self.relt(str(val))[:300])
        self.res.stats["probe:cancel-after-exit" if exited else "probe:cancel-while-running"] += 1
        rec.state = CANCELLED
        rec.ended = True
        rec.end_how = "cancel"
        return "ok"

    def x_get_command(self, rec, op, fn, args, kwargs):
        st, val = call(fn)
        if st == "exc":
            self.fail("getter:raised", kind=rec.kind, op="get_command", got=exc_name(val))
        self.check_getter(rec, "get_command", val)
        return "ok"

    def x_get_process(self, rec, op, fn, args, kwargs):
        st, val = call(fn)
        if st == "exc":
            self.fail("getter:raised", kind=rec.kind, op="get_process", got=exc_name(val))
        if val is not (rec.procs[-1].popen if self.real else rec.procs[-1]):
            self.fail("getter:wrong-value", kind=rec.kind, op="get_process")
        return "ok"

    def _simple_getter(self, rec, op, fn):
        st, val = call(fn)
        if st == "exc":
            self.fail("getter:raised", kind=rec.kind, op=op["op"], got=exc_name(val), state=rec.state)
        self.check_getter(rec, op["op"], val)
        return "ok"

    def x_get_exit_code(self, rec, op, fn, args, kwargs):
        return self._simple_getter(rec, op, fn)

    x_get_stdout = x_get_exit_code
    x_get_stderr = x_get_exit_code

    def check_getter(self, rec, name, val):
        p = rec.procs[-1] if rec.procs else None
        if name == "get_command":
            exp = " ".join(p.args) if p else None
            if p is None or val != exp:
                self.fail("getter:wrong-value", kind=rec.kind, op=name, got=self.relt(str(val)), expected=self.relt(str(exp)))
        elif name == "get_exit_code":
            if val != p._code:
                self.fail("getter:wrong-value", kind=rec.kind, op=name, got=val, expected=p._code)
        elif name == "get_stdout":
            if val != p._out:
                self.fail("getter:wrong-value", kind=rec.kind, op=name, got=str(val)[:100], expected=p._out[:100])
        elif name == "get_stderr":
            early = sw.early_bytes(rec.script)
            if early and isinstance(val, str) and val.startswith(sw.EARLY_ERR.decode()) and val.endswith(p._err):
                pass  # what the program printed first, (a rendering of undecodable bytes), what it printed at the end
            elif not early and rec.script.get("bad_bytes") and isinstance(val, str) and val.startswith(p._err) and len(val) > len(p._err):
                pass  # the readable part is there; how the undecodable tail is rendered is the wrapper's choice
            elif early or val != p._err:
                self.fail("getter:wrong-value", kind=rec.kind, op=name, got=str(val)[:100], expected=p._err[:100])

    # -- join ---------------------------------------------------------------------------------------------------
    def predicted_failure(self, rec):
        """None if the scripted tool run is a success path, else a tag naming why evaluate must fail."""
        s = rec.script
        k = rec.kind
        if k == "stubpoll":
            return "eval" if s.get("eval") == "fail" else None
        if s.get("exit", 0) != 0:
            return "exit"
        if k == "stublocal":
            return None
        if s.get("out", "ok") != "ok":
            return "out"
        tr = s.get("tree", "ok")
        if k == "muscle3" and "garbage" in (tr, s.get("tree1", tr)):
            return "tree"
        if tr != "ok":
            if k == "clustalo" and "tree" not in rec.settings:
                return "tree"
            if k == "mafft":
                return "tree"
            if k == "muscle3" and tr == "garbage":
                return "tree"
        return None

    def x_join(self, rec, op, fn, args, kwargs):
        import subprocess

        from biotite.application import AppStateError, TimeoutError as AppTimeout

        world = self.world
        to = op.get("timeout")
        now0 = world.now
        exited = rec.exit_at is not None and now0 >= rec.exit_at
        self.res.stats["probe:join-after-finished" if exited else "probe:join-while-running"] += 1
        hang = rec.exit_at is None or rec.exit_at == sw.INF
        poll = rec.kind == "stubpoll"
        jumped_before = world.jumped
        intr = op.get("intr") if not self.real else None
        in_evaluate = intr is not None and op.get("intr_where") == "evaluate"
        if in_evaluate:
            # the asynchronous exception arrives when join() has started to evaluate the output (once)
            real_evaluate = rec.app.evaluate
            icls = sw.INJECTED[op.get("intr_class", "KeyboardInterrupt")]

            def interrupted_evaluate():
                rec.app.__dict__.pop("evaluate", None)
                self.res.stats["fault:interrupt-in-evaluate"] += 1
                raise icls()

            rec.app.evaluate = interrupted_evaluate
            if hang and to is None:
                raise InvalidSpec("join without timeout on a tool that never exits")
        elif intr is not None:
            world.interrupt_at = world.now + intr
            world.interrupt_class = sw.INJECTED[op.get("intr_class", "KeyboardInterrupt")]
        elif hang and to is None:
            raise InvalidSpec("join without timeout on a tool that never exits")
        if self.real:
            if hang and to is None:
                raise InvalidSpec("join without timeout on a tool that never exits")
            if not hang and (to is None or exited or rec.exit_at - now0 <= to):
                # the model says the child exits within the wait: let it exit first, then join returns at once
                world.advance_to(max(now0, rec.exit_at))
                self.settle()
                st, val = call(fn, *args, **kwargs)
            else:
                # the child stays gated: a short *real* timeout stands for `to` virtual seconds
                st, val = call(rec.app.join, timeout=0.05)
                world.advance(to)
                for p in rec.procs:
                    p.wait_dead()
                self.settle()  # other wrappers' children whose exit instant has passed meanwhile
        else:
            st, val = call(fn, *args, **kwargs)
        world.interrupt_at = None
        if in_evaluate:
            rec.app.__dict__.pop("evaluate", None)
        if st == "exc" and isinstance(val, sw.INJECTED_CLASSES):
            # the wait was interrupted before the run had ended. Two coherent outcomes: the wrapper is exactly as
            # before (the caller may join again or cancel), or it took the interrupt as a cancellation and released
            # everything; the resource invariants after this step tell a half-way state from both
            self.res.stats["probe:join-interrupted"] += 1
            if intr is None:
                self.fail("join:interrupt-out-of-nowhere", kind=rec.kind)
            if not in_evaluate and world.now + 1e-9 < now0 + intr:
                self.fail("join:interrupt-too-early", kind=rec.kind)
            real_state = str(getattr(rec.app, "_state", ""))
            if real_state.endswith("CANCELLED"):
                rec.state = CANCELLED
                rec.ended = True
                rec.end_how = "interrupted-join"
                return "interrupted:cancelled"
            if real_state.endswith("JOINED"):
                self.fail("join:joined-although-interrupted", kind=rec.kind)
            return "interrupted:unchanged"
        elapsed = world.now - now0
        jump = world.jumped
        if jump and poll:
            self.res.stats["probe:clock-jump-during-join"] += 1
        wi = rec.script.get("wi", 0.0)
        # which outcomes does the model allow?
        if poll:
            start = rec.started_at
            # the polling join measures the timeout from start() and always polls once before it looks at
            # the clock: the model leaves one polling interval of slack around the deadline
            deadline = None if to is None else max(start + to, now0)
            can_timeout = to is not None and (hang or rec.exit_at > deadline)
            can_finish = (not hang) and (to is None or rec.exit_at <= deadline + wi or exited)
            if exited:
                can_timeout = False
            if jump:
                can_timeout = to is not None
                can_finish = not hang
        else:
            remaining = (rec.exit_at - now0) if not hang else sw.INF
            can_timeout = to is not None and not exited and remaining > to
            can_finish = not can_timeout
            if to is not None and to <= 0 and exited and rec.state == RUNNING:
                # join(timeout=0) on a child that has exited but whose exit the wrapper has not observed yet: the
                # real Popen.communicate(timeout=0) raises TimeoutExpired before it has drained the pipes (found by
                # the real-process phase), the simulated one returns; "do not wait at all" is defensible for a
                # wrapper that still believes it is RUNNING, so both outcomes are accepted here
                can_timeout = True
        # LocalApp.join raises the *builtin* TimeoutError (localapp.py does not import biotite's class); the
        # statement does not name the class, so both count as "the timeout was reported"
        is_timeout = st == "exc" and isinstance(val, (AppTimeout, TimeoutError))
        if is_timeout:
            if not can_timeout:
                self.fail("join:unexpected-timeout", kind=rec.kind, timeout=to, exit_in=None if hang else round(rec.exit_at - now0, 3))
            rec.state = CANCELLED
            rec.ended = True
            rec.end_how = "timeout"
            self.res.stats["probe:timeout-expired"] += 1
            self.res.stats["fault:join-timeout"] += 1
            if poll:
                self.res.stats["probe:poll-join-timeout"] += 1
                if not jump:
                    since_start = world.now - rec.started_at
                    if since_start < to - 1e-9:
                        self.fail("join:timeout-too-early", kind=rec.kind, timeout=to, after=round(since_start, 4))
                    if since_start > max(to, now0 - rec.started_at) + 2 * wi + 1e-9:
                        self.fail("liveness:timeout-too-late", kind=rec.kind, timeout=to, after=round(since_start, 4), wi=wi)
            else:
                # never early; how late is not stated, so the bound is generous (a waiting strategy other than one
                # blocking communicate() would still pass)
                if elapsed < to - 1e-9:
                    self.fail("join:timeout-too-early", kind=rec.kind, timeout=to, elapsed=round(elapsed, 4))
                if elapsed > to + max(1.0, 0.1 * to):
                    self.fail("liveness:timeout-too-late", kind=rec.kind, timeout=to, elapsed=round(elapsed, 4))
            return "timeout"
        if not can_finish:
            if st == "ok":
                self.fail("join:returned-although-tool-still-running", kind=rec.kind, timeout=to)
            self.fail("join:wrong-exception-instead-of-timeout", kind=rec.kind, got=exc_name(val), msg=self.relt(str(val))[:300])
        # the run reached the tool's exit
        if poll:
            self.res.stats["probe:poll-join-success"] += 1
            if not jump and world.now > max(rec.exit_at, now0) + 2 * wi + 1e-9:
                self.fail("liveness:join-too-late", kind=rec.kind, exit_at=round(rec.exit_at - sw.EPOCH, 3),
                          returned=round(world.now - sw.EPOCH, 3), wi=wi)
            if world.now < rec.exit_at - 1e-9:
                self.fail("join:returned-before-exit", kind=rec.kind)
        else:
            exp_now = max(now0, rec.exit_at)
            if world.now < exp_now - 1e-9:
                self.fail("join:returned-before-exit", kind=rec.kind, expected=round(exp_now - sw.EPOCH, 3), got=round(world.now - sw.EPOCH, 3))
            if world.now > exp_now + 1.0:
                self.fail("liveness:join-too-late", kind=rec.kind, expected=round(exp_now - sw.EPOCH, 3), got=round(world.now - sw.EPOCH, 3))
        why = self.predicted_failure(rec)
        if why is not None:
            rec.state = CANCELLED
            rec.ended = True
            rec.end_how = "evaluate-failed:" + why
            if st == "ok":
                rec.state = JOINED
                self.fail("join:failure-swallowed", kind=rec.kind, why=why, script={k: rec.script.get(k) for k in ("exit", "out", "tree")})
            if isinstance(val, (AppStateError, AppTimeout, TimeoutError)):
                self.fail("join:wrong-exception", kind=rec.kind, why=why, got=exc_name(val))
            if why == "exit" and not isinstance(val, subprocess.SubprocessError):
                self.fail("join:wrong-exception", kind=rec.kind, why=why, got=exc_name(val), msg=str(val)[:200])
            if why != "exit":
                self.res.stats["probe:evaluate-failed-after-zero-exit"] += 1
            self.res.stats["fault:evaluate-failed-" + why] += 1
            return "failed:" + why
        if st == "exc":
            rec.state = CANCELLED
            rec.ended = True
            rec.end_how = "unexpected-join-failure"
            self.fail("join:unexpected-exception", kind=rec.kind, got=exc_name(val), msg=self.relt(str(val))[:400])
        rec.state = JOINED
        rec.ended = True
        rec.end_how = "join"
        return "ok"

    # -- results ----------------------------------------------------------------------------------------------------
    def x_result(self, rec, op, fn, args, kwargs):
        name = op["op"]
        st, val = call(fn, *args, **kwargs)
        k = rec.kind
        if k == "stubpoll":
            if st == "exc" or val != ("result", rec.script["tool_seed"]):
                self.fail("result:wrong-value", kind=k, op=name)
            return "ok"
        rep = rec.procs[-1].tool_report
        if name == "get_distance_matrix" and not rec.settings.get("full"):
            if st == "ok" or not isinstance(val, ValueError):
                self.fail("result:distance-matrix-without-full", kind=k)
            return "rejected:ValueError"
        if st == "exc":
            self.fail("result:raised", kind=k, op=name, got=exc_name(val), msg=str(val)[:200])
        try:
            return self._compare_result(rec, name, val, rep, k)
        except (AttributeError, TypeError, ValueError, KeyError, IndexError) as e:
            # the returned object is not what the getter documents (None, another type, another shape): it cannot even be
            # compared with what the program produced
            self.fail("result:cannot-interpret", kind=k, op=name, got=type(val).__name__, why=f"{exc_name(e)}: {e}"[:200])

    def _compare_result(self, rec, name, val, rep, k):
        n = len(rec.seqs)
        if name == "get_alignment":
            ali = val
            seqs = list(ali.sequences)
            if len(seqs) != n:
                self.fail("result:alignment-sequence-count", kind=k, got=len(seqs), expected=n)
            for i in range(n):
                a, b = seqs[i], rec.seqs[i]
                if type(a) is not type(b) or a.get_alphabet() != b.get_alphabet() or not np.array_equal(a.code, b.code):
                    self.fail("result:alignment-sequences-not-the-input", kind=k, index=i, got=repr(a)[:80], expected=repr(b)[:80])
            rows = [rep["rows_by_label"][str(i)] for i in range(n)]
            L = len(rows[0])
            exp = np.full((L, n), -1, dtype=int)
            for j, r in enumerate(rows):
                c = 0
                for i, ch in enumerate(r):
                    if ch != "-":
                        exp[i, j] = c
                        c += 1
            got = np.asarray(ali.trace)
            if got.shape != exp.shape or not np.array_equal(got, exp):
                self.fail("result:alignment-trace", kind=k, got=got.tolist(), expected=exp.tolist(), order=rep["order_labels"])
            self.res.stats["probe:results-verified"] += 1
        elif name == "get_alignment_order":
            exp = [int(x) for x in rep["order_labels"]]
            if list(np.asarray(val).tolist()) != exp:
                self.fail("result:alignment-order", kind=k, got=np.asarray(val).tolist(), expected=exp)
            self.res.stats["probe:results-verified"] += 1
        elif name in ("get_guide_tree", "get_guide_tree_kmer"):
            if k == "clustalo" and "tree" in rec.settings:
                if val != rec.settings["tree"]:
                    self.fail("result:guide-tree", kind=k, what="input tree not returned")
                return "ok"
            tfault = rec.script.get("tree", "ok")
            if k == "muscle3" and name == "get_guide_tree_kmer":
                tfault = rec.script.get("tree1", tfault)  # the first-iteration tree has a fault of its own
            if k == "muscle3" and tfault in ("missing", "empty"):
                if val is not None:
                    self.fail("result:guide-tree", kind=k, what="tree although the tool wrote none")
                return "ok:none"
            exp = rep["tree1"] if name == "get_guide_tree_kmer" else rep["tree"]
            got = canon_biotite_tree(val)
            if canon(got) != canon(exp):
                self.fail("result:guide-tree", kind=k, got=got, expected=exp)
            self.res.stats["probe:tree-verified"] += 1
        elif name == "get_distance_matrix":
            exp = np.array(rep["distmat_out"])
            got = np.asarray(val)
            if got.shape != exp.shape or not np.allclose(got, exp, atol=1e-5):
                self.fail("result:distance-matrix", kind=k, got=got.tolist(), expected=exp.tolist())
        return "ok"

    # -- MSAApp.align convenience path -----------------------------------------------------------------------------------
    def op_align(self, rec0):
        """cls.align(...) creates, starts and joins a private wrapper. Observable: return value or exception, and
        afterwards temp dir, cwd and process table must be as before."""
        ws = rec0.spec
        k = rec0.kind
        if k in ("stublocal", "stubpoll", "stubmsa") or ws.get("ctor_fault") or ws["script"]["dur"] is None:
            return
        if (ws.get("version") or {}).get("kind", "ok") != "ok":
            return
        t = ws["seqs"]["type"]
        if t == "custom" and (k in ("clustalo", "muscle5") or len(ws["seqs"]["alphabet"]) > 24):
            return
        rec = WRec(rec0.idx, ws)
        rec.exec_dir_path = None
        rec.created_cwd = self.cur_cwd
        seqs = _make_sequences(ws["seqs"], None)
        rec.seqs = seqs
        matrix = None
        if ws.get("matrix") is not None and k in ("muscle3", "mafft") and not ws["matrix"].get("asym") and not (t in ("nuc", "nuc_amb") and k == "muscle3"):
            matrix = _make_matrix(ws["matrix"], seqs)
        if t == "custom" and matrix is None:
            return
        rec.matrix = matrix
        rec.mapped = t == "custom"
        rec.expected_in = _expected_input_rows(seqs, ws["seqs"], rec.mapped)
        rec.seqtype = "protein" if t in ("protein", "custom") else "nucleotide"
        rec.bin = ws["bin"] or {"clustalo": "clustalo", "muscle3": "muscle", "muscle5": "muscle", "mafft": "mafft"}[k]
        cls = app_class(k)
        before = set(os.listdir(self.tmp))
        nprocs = len(self.world.procs)
        self.world.current = rec
        self.world.version_script = ws.get("version")
        kwargs = {}
        if ws["bin"]:
            kwargs["bin_path"] = ws["bin"]
        if matrix is not None:
            kwargs["matrix"] = matrix
        given = (x for x in seqs) if ws["seqs"].get("container") == "generator" else seqs
        rec.seqs = list(seqs)
        try:
            st, val = call(cls.align, given, **kwargs)
        finally:
            self.world.current = None
        fails = None
        s = ws["script"]
        if s["launch"] != "ok":
            fails = "launch"
        else:
            fails = self.predicted_failure(rec)
        for p in rec.procs:
            if p.tool_report is not None:
                p.report_checked = True
                self.check_tool_report(rec, p)
        if fails is None:
            if st == "exc":
                self.fail("align:unexpected-exception", kind=k, got=exc_name(val), msg=self.relt(str(val))[:300])
            rep = rec.procs[-1].tool_report
            rows = [rep["rows_by_label"][str(i)] for i in range(len(seqs))]
            got = [str(x) for x in val.get_gapped_sequences()] if t != "custom" else None
            if got is not None and got != rows:
                self.fail("align:wrong-alignment", kind=k, got=got, expected=rows)
            out = "ok"
        else:
            if st == "ok":
                self.fail("align:failure-swallowed", kind=k, why=fails)
            self.res.stats["probe:align-classmethod-failed"] += 1
            out = "failed:" + fails
        owned = {os.path.basename(f) for r in self.recs for f in r.files}  # e.g. another MAFFT child wrote its .tree meanwhile
        left = sorted(set(os.listdir(self.tmp)) - before - owned)
        if left:
            self.fail("resource:temp-files-left", op="align", kind=k, how="align:" + out, count=len(left),
                      files=[os.path.splitext(f)[1] for f in left])
        if any(p.alive() for p in self.world.procs[nprocs:]):
            self.fail("resource:child-left-running", op="align", kind=k, how="align:" + out)
        self.launched_any = True
        self.res.features.add((k, "align", None, out))
        self.log.add({"i": self.step, "w": rec0.idx, "op": "align", "out": out, "now": round(self.world.now - sw.EPOCH, 3)})

    def close(self):
        for f in getattr(self, "open_files", []):
            try:
                f.close()
            except Exception:  # noqa: BLE001
                pass
        for rec in self.recs:
            app = rec.app
            for attr in dir(app) if app is not None else []:
                if attr.endswith("_file"):
                    f = getattr(app, attr, None)
                    if hasattr(f, "close"):
                        try:
                            f.close()
                        except Exception:  # noqa: BLE001
                            pass


def canon_biotite_tree(tree):
    def rec(node):
        d = None if node.is_root() else round(float(node.distance), 2)
        if node.is_leaf():
            return ("L", int(node.index), d)
        return ("N", tuple(sorted(rec(c) for c in node.children)), d)

    return rec(tree.root)


def app_class(kind):
    from biotite.application.clustalo import ClustalOmegaApp
    from biotite.application.mafft import MafftApp
    from biotite.application.muscle import Muscle5App, MuscleApp

    return {"clustalo": ClustalOmegaApp, "muscle3": MuscleApp, "muscle5": Muscle5App, "mafft": MafftApp}[kind]


def make_stub_msa_class(abilities):
    from biotite.application.msaapp import MSAApp

    class StubMSAApp(MSAApp):
        """Bare MSAApp subclass: command line of the fictitious program plus the documented override hooks."""

        def __init__(self, sequences, bin_path="stubmsa", matrix=None):
            super().__init__(sequences, bin_path, matrix)

        def run(self):
            args = ["-in", self.get_input_file_path(), "-out", self.get_output_file_path(), "-seqtype", self.get_seqtype()]
            if self.get_matrix_file_path() is not None:
                args += ["-matrix", self.get_matrix_file_path()]
            self.set_arguments(args)
            super().run()

        @staticmethod
        def get_default_bin():
            return "stubmsa"

        @staticmethod
        def supports_nucleotide():
            return abilities["nuc"]

        @staticmethod
        def supports_protein():
            return abilities["prot"]

        @staticmethod
        def supports_custom_nucleotide_matrix():
            return abilities["nuc_matrix"]

        @staticmethod
        def supports_custom_protein_matrix():
            return abilities["prot_matrix"]

    return StubMSAApp


def make_stub_local(bin_path, script=None):
    from biotite.application.localapp import LocalApp

    script = script or {}

    class StubLocalApp(LocalApp):
        """Adds nothing but an optional failing step after the launch (run() is the documented override hook)."""

        def __init__(self, bin_path):
            super().__init__(bin_path)

        def run(self):
            super().run()
            if script.get("post_launch") == "fail":
                raise RuntimeError("a step of run() after the launch failed")
            if script.get("post_launch") == "interrupt":
                raise sw.injected(script)

    return StubLocalApp(bin_path)


def make_stub_poll(sim, rec):
    from biotite.application.application import Application, AppState, requires_state

    world = sim.world
    script = rec.script

    web = rec.spec.get("web")
    if web:
        from biotite.application import WebApp

        base, base_args = WebApp, (web["url"],) if web["obey"] else (web["url"], False)
    else:
        base, base_args = Application, ()
    rec.web_last = None
    rec.web_flag = 0

    class StubPollApp(base):
        """Minimal subclass driving Application.start/join/cancel/get_app_state (the polling join); optionally a WebApp
        whose status requests are rate-limited by the simulated server."""

        def __init__(self):
            super().__init__(*base_args)
            self._res = None

        def run(self):
            if script["launch"] != "ok":
                world.stats[f"fault:launch-{script['launch']}"] += 1
                if script["launch"] == "interrupt":
                    raise sw.injected(script)
                raise {"enoent": FileNotFoundError, "eacces": PermissionError, "eagain": BlockingIOError}[script["launch"]](script["launch"])
            f = tempfile.NamedTemporaryFile("w", suffix=".job", delete=False)
            f.close()
            dur = script["dur"]
            rec.job = {"file": f.name, "exit_at": sw.INF if dur is None else world.now + dur, "killed": False}
            rec.files.add(f.name)
            if dur is None:
                world.stats["fault:tool-hangs"] += 1

        def is_finished(self):
            world.fire_due()
            # polling without ever letting time pass: the virtual clock only moves in sleep(), so a loop that asks
            # again and again at the same instant would spin for ever (on a real clock it would burn a core)
            if rec.poll_instant == world.now:
                rec.poll_count += 1
                if rec.poll_count > 20000:
                    raise sw.SimDeadlock("is_finished() asked more than 20000 times at the same instant (busy wait without sleep)")
            else:
                rec.poll_instant, rec.poll_count = world.now, 0
            if web:
                last = rec.web_last
                if last is not None and 0 <= world.now - last < web["gap"]:
                    rec.web_flag += 1
                    world.stats["fault:web-contact-too-frequent"] += 1
                    if web["msg"] is None:
                        self.violate_rule()
                    else:
                        self.violate_rule(web["msg"])
                rec.web_last = world.now
            return world.now >= rec.job["exit_at"]

        def wait_interval(self):
            return script["wi"]

        def evaluate(self):
            if script.get("eval") == "fail":
                raise ValueError("unparsable job output")
            self._res = ("result", script["tool_seed"])

        def clean_up(self):
            if rec.job is not None:
                rec.job["killed"] = True
                try:
                    os.remove(rec.job["file"])
                except FileNotFoundError:
                    pass

        @requires_state(AppState.JOINED)
        def get_result(self):
            return self._res

    return StubPollApp()


def execute(spec, keep_log=0):
    sim = Sim(spec, keep_log)
    sim.open_files = []
    res = sim.res
    try:
        with sw.Seams(sim.world, sim.cfg.get("name_seed", 0)):
            try:
                sim.run()
            except Violation as v:
                res.violation = {"sig": v.sig, "detail": v.detail, "step": v.step}
                sim.log.add({"violation": v.sig, "step": v.step})
            finally:
                sim.close()
    finally:
        shutil.rmtree(sim.root, ignore_errors=True)
    res.sim_time = sim.world.now - sw.EPOCH
    res.stats["sim:events-fired"] += sim.world.events_fired
    res.nontrivial = res.n_ops >= 3 and sim.launched_any
    res.digest = sim.log.digest()
    res.log = sim.log.tail if keep_log else None
    return res


# ================================================================================================
# minimisation helpers
# ================================================================================================

def simplify(spec):
    """Candidates that are simpler than spec (after the op list has been ddmin-ed)."""
    import copy

    cfg = spec["cfg"]
    used = sorted({o["w"] for o in spec["ops"] if "w" in o})
    # drop an unused second wrapper
    if len(cfg["wrappers"]) == 2 and used in ([0], [1], []):
        s = copy.deepcopy(spec)
        keep = used[0] if used else 0
        s["cfg"]["wrappers"] = [cfg["wrappers"][keep]]
        for o in s["ops"]:
            if "w" in o:
                o["w"] = 0
        yield s
    if cfg.get("jumps"):
        s = copy.deepcopy(spec)
        s["cfg"]["jumps"] = []
        yield s
    for wi, w in enumerate(cfg["wrappers"]):
        sc = w["script"]
        for key, simple in (("launch", "ok"), ("exit", 0), ("out", "ok"), ("tree", "ok"), ("stderr", ""), ("eval", "ok"), ("post_launch", None)):
            if key in sc and sc[key] != simple:
                s = copy.deepcopy(spec)
                s["cfg"]["wrappers"][wi]["script"][key] = simple
                yield s
        if sc.get("dur") not in (0.1, None):
            s = copy.deepcopy(spec)
            s["cfg"]["wrappers"][wi]["script"]["dur"] = 0.1
            yield s
        if w.get("matrix") is not None and w.get("seqs", {}).get("type") != "custom":
            s = copy.deepcopy(spec)
            s["cfg"]["wrappers"][wi]["matrix"] = None
            yield s
        if "seqs" in w and len(w["seqs"]["rows"]) > 2:
            s = copy.deepcopy(spec)
            s["cfg"]["wrappers"][wi]["seqs"]["rows"] = w["seqs"]["rows"][:2]
            yield s
        if "seqs" in w and any(len(r) > 2 for r in w["seqs"]["rows"]):
            s = copy.deepcopy(spec)
            s["cfg"]["wrappers"][wi]["seqs"]["rows"] = [r[:2] for r in w["seqs"]["rows"]]
            yield s
        if w.get("bin") not in (None, "stubtool"):
            s = copy.deepcopy(spec)
            s["cfg"]["wrappers"][wi]["bin"] = None
            yield s


# ================================================================================================
# systematic prefix: every short call sequence x every fault kind x every wrapper kind
# ================================================================================================

ENUM_ALPHABET = ["start", "join", "join_t", "cancel", "state", "setter", "result", "advance", "getter"]
ENUM_FAULTS = ["ok", "launch", "nonzero", "hang", "out", "tree", "slow"]
ENUM_KINDS = KINDS + ["stubweb"]  # stubweb: the polling stub as a WebApp behind a rate-limiting simulated server
ENUM_LEN = {"quick": 3, "thorough": 4}


def enum_size(length):
    n = 0
    for L in range(1, length + 1):
        n += len(ENUM_ALPHABET) ** L
    return n * len(ENUM_FAULTS) * len(ENUM_KINDS)


def enum_spec(index, length):
    """index -> (kind, fault, call sequence) in a fixed mixed-radix order; data (sequences etc.) is small and fixed."""
    per_seq = len(ENUM_FAULTS) * len(ENUM_KINDS)
    seq_i, rest = divmod(index, per_seq)
    fault = ENUM_FAULTS[rest // len(ENUM_KINDS)]
    kind = ENUM_KINDS[rest % len(ENUM_KINDS)]
    web = None
    if kind == "stubweb":
        kind = "stubpoll"
        web = {"obey": True, "gap": 5.0, "msg": None, "url": "https://sim.example/cgi"}
    L = 1
    while seq_i >= len(ENUM_ALPHABET) ** L:
        seq_i -= len(ENUM_ALPHABET) ** L
        L += 1
    calls = []
    for _ in range(L):
        seq_i, a = divmod(seq_i, len(ENUM_ALPHABET))
        calls.append(ENUM_ALPHABET[a])
    script = {"launch": "ok", "dur": 2.6, "exit": 0, "out": "ok", "tree": "ok", "stderr": "", "tool_seed": 12345 + index % 97}
    if fault == "launch":
        script["launch"] = ["enoent", "eacces", "eagain"][index % 3]
    elif fault == "nonzero":
        script["exit"] = 1
        script["stderr"] = "FATAL\n"
    elif fault == "hang":
        script["dur"] = None
    elif fault == "out":
        script["out"] = ["garbage", "empty", "missing_row", "truncated"][index % 4]
        if kind == "stubpoll":
            script["eval"] = "fail"
    elif fault == "tree":
        script["tree"] = ["missing", "empty", "garbage"][index % 3]
    elif fault == "slow":
        script["dur"] = 120.6
    w = {"kind": kind, "bin": None, "script": script}
    if kind in ("stublocal", "stubpoll"):
        w["bin"] = "stubtool"
        if kind == "stubpoll":
            script["wi"] = 1.0
            script.setdefault("eval", "ok")
            if web:
                w["web"] = web
        else:
            script["stdout"] = "hello\n"
    else:
        w["seqs"] = {"type": "protein", "rows": ["ACDEF", "ACEF", "CDEFG"], "alphabet": None}
        w["matrix"] = None
        w["ctor_fault"] = None
        if kind == "muscle3":
            w["version"] = {"kind": "ok", "banner": "MUSCLE v3.8.31 by Robert C. Edgar\n"}
        elif kind == "muscle5":
            w["version"] = {"kind": "ok", "banner": "muscle 5.1.linux64 []\n"}
    ops = [{"w": 0, "op": "create"}]
    for c in calls:
        if c == "join":
            ops.append({"w": 0, "op": "join", "timeout": None if script["dur"] is not None else 3.0})
        elif c == "join_t":
            ops.append({"w": 0, "op": "join", "timeout": 3.0})
        elif c == "advance":
            ops.append({"op": "advance", "dt": 10.0})
        elif c == "setter":
            if kind == "stubpoll":
                ops.append({"w": 0, "op": "state"})
            else:
                ops.append({"w": 0, "op": "add_options", "options": ["--x-a"]})
        elif c == "result":
            ops.append({"w": 0, "op": RESULTS[kind][0] if RESULTS[kind] else "get_stdout"})
        elif c == "getter":
            ops.append({"w": 0, "op": "get_command" if kind != "stubpoll" else ("app_url" if web else "state")})
        else:
            ops.append({"w": 0, "op": c})
    return {"cfg": {"wrappers": [w], "jumps": [], "name_seed": index}, "ops": ops, "enum": {"kind": "stubweb" if web else kind, "fault": fault, "calls": calls}}


class _EnumModule:
    """Module-like view of this property whose run index enumerates the systematic family."""

    PROP = PROP
    SEED_NAMESPACE = "C20-enum"
    STALL_SECONDS = STALL_SECONDS

    def __init__(self, length):
        self.length = length

    def generate_indexed(self, index, rng):
        return enum_spec(index, self.length)

    @staticmethod
    def execute(spec, keep_log=0):
        return execute(spec, keep_log=keep_log)


ENUM_MODULE = _EnumModule(ENUM_LEN["thorough"])


def extra_phase(tier, seed, total, workers, scratch):
    from .. import core

    length = int(os.environ.get("VERIF_ENUM_LEN") or ENUM_LEN.get(tier, 3))  # development knob (tools_mutate.py)
    n = enum_size(length)
    mod = _EnumModule(length)
    PHASE_MODULES["enum"] = mod
    sub = os.path.join(scratch, "enum")
    os.makedirs(sub, exist_ok=True)
    saved = core.DIGEST_SAMPLE, core.SAMPLE_INDICES
    core.DIGEST_SAMPLE, core.SAMPLE_INDICES = 0, ()
    try:
        agg, truncated = core.run_many(mod, seed, n, workers, sub)
    finally:
        core.DIGEST_SAMPLE, core.SAMPLE_INDICES = saved
    for idx, v in agg.violations:
        v["phase"] = "enum"
    agg.harness = [(h[0], h[1], "enum") for h in agg.harness]
    total.merge(agg)
    info = {"systematic_prefix": {
        "what": f"every call sequence of length <= {length} over {ENUM_ALPHABET} x fault kinds {ENUM_FAULTS} x wrapper kinds {ENUM_KINDS}",
        "runs": agg.runs, "expected_runs": n, "exhaustive_over_this_family": agg.runs == n and not truncated, "violations": len(agg.violations)}}
    # ---- conformance: sampled histories against REAL child processes (gated fake executables) ----
    nreal = int(os.environ.get("VERIF_REAL_RUNS") or REAL_RUNS.get(tier, REAL_RUNS["quick"]))
    sub2 = os.path.join(scratch, "real")
    os.makedirs(sub2, exist_ok=True)
    core.DIGEST_SAMPLE, core.SAMPLE_INDICES = 0, ()
    try:
        ragg, rtrunc = core.run_many(REAL_MODULE, seed, nreal, workers, sub2)
    finally:
        core.DIGEST_SAMPLE, core.SAMPLE_INDICES = saved
    for idx, v in ragg.violations:
        v["phase"] = "real"
    ragg.harness = [(h[0], h[1], "real") for h in ragg.harness]
    real_stats = {k: v for k, v in ragg.stats.items() if k.startswith(("fault:", "sim:"))}
    # keep the real-process counters apart from the simulated ones
    ragg.stats = type(ragg.stats)({("real-process:" + k if not k.startswith("op:") else k): v for k, v in ragg.stats.items()})
    total.merge(ragg)
    info["real_process_conformance"] = {
        "what": "the same generator, model and oracles, but subprocess.Popen is real and runs fixtures/bin/faketool, a gated executable that "
                "blocks on a FIFO until the scheduler releases it; the scheduler waits with waitid(WNOWAIT) until the child is a zombie "
                "before biotite may observe anything (real process layer, stub tool)",
        "runs": ragg.runs, "violations": len(ragg.violations), "truncated": rtrunc, "counters": dict(sorted(real_stats.items()))}
    return info


PHASE_MODULES = {"enum": ENUM_MODULE}


# ================================================================================================
# real-process conformance mode: the same histories, the same model and oracles, but the process layer is
# the real subprocess.Popen running gated fake executables (fixtures/bin/faketool)
# ================================================================================================

FAKETOOL = os.path.join(os.path.dirname(os.path.dirname(os.path.dirname(os.path.abspath(__file__)))), "fixtures", "bin", "faketool")


def proc_state(pid):
    try:
        with open(f"/proc/{pid}/stat") as f:
            return f.read().rsplit(")", 1)[1].split()[0]
    except OSError:
        return None


class RealProc:
    """Observation surface of SimPopen on top of a real child process."""

    def __init__(self, popen, rec, world, ctrl):
        self.popen = popen
        self.args = list(popen.args)
        self.pid = popen.pid
        self.rec = rec
        self.world = world
        self.ctrl = ctrl
        dur = rec.script.get("dur")
        self.exit_at = sw.INF if dur is None else world.now + dur
        self.released = False
        self.tool_report = None
        self._code = self._out = self._err = None
        self.stdin = None

    def alive(self):
        return proc_state(self.pid) not in (None, "Z", "X")

    def wait_dead(self, limit=10.0):
        import time

        t0 = time.monotonic()
        while self.alive():
            if time.monotonic() - t0 > limit:
                return False
            time.sleep(0.002)
        return True

    def release(self):
        """Let the gated child run to its end and wait until it is a zombie, so that everything biotite can
        observe afterwards happens at a synchronisation point."""
        import errno
        import time

        if self.released or not self.alive():
            return
        self.released = True
        t0 = time.monotonic()
        while True:
            try:
                fd = os.open(self.ctrl["fifo"], os.O_WRONLY | os.O_NONBLOCK)
                break
            except OSError as e:
                if e.errno != errno.ENXIO or time.monotonic() - t0 > 20:
                    raise
                time.sleep(0.002)
        os.write(fd, b"x")
        os.close(fd)
        os.waitid(os.P_PID, self.pid, os.WEXITED | os.WNOWAIT)
        with open(self.ctrl["report"]) as f:
            rep = json.load(f)
        if "matrix_in" in rep:
            cols, rows = rep["matrix_in"]
            rep["matrix_in"] = (cols, {(r, c): v for r, c, v in rows})
        for k, v in rep.get("faults", {}).items():
            self.world.stats[k] += v
        self.tool_report = rep
        self._code, self._out, self._err = rep["code"], rep["stdout"], rep["stderr"]
        self.world.stats["sim:child-exits"] += 1


class RealSim(Sim):
    real = True

    def __init__(self, spec, keep_log):
        super().__init__(spec, keep_log)
        self.ctrl_n = 0

    def ctrl_for(self, rec):
        self.ctrl_n += 1
        base = os.path.join(self.root, f"ctrl{self.ctrl_n}")
        ctrl = {"kind": rec.kind, "script": rec.script, "fifo": base + ".fifo", "report": base + ".report",
                "banner": (rec.spec.get("version") or {}).get("banner", ""), "argv0": rec.bin}
        os.mkfifo(ctrl["fifo"])
        with open(base + ".json", "w") as f:
            json.dump(ctrl, f)
        os.environ["VERIF_TOOL_CTRL"] = base + ".json"
        return ctrl

    def real_bin(self, rec):
        launch = rec.script.get("launch", "ok")
        if launch == "enoent":
            return os.path.join(self.root, "no-such-binary")
        if launch == "eacces":
            p = os.path.join(self.root, "not-executable")
            with open(p, "w") as f:
                f.write("#!/bin/sh\n")
            os.chmod(p, 0o644)
            return p
        return FAKETOOL


def execute_real(spec, keep_log=0):
    """Entry used by the conformance phase; specs come from the same generator, filtered to what real
    processes can express (no fork failure injection, no stubpoll wrapper)."""
    import biotite.application.application as appmod

    sim = RealSim(spec, keep_log)
    sim.open_files = []
    res = sim.res
    saved = (appmod.time, tempfile.tempdir, tempfile._name_sequence, os.getcwd(), os.environ.get("VERIF_TOOL_CTRL"))
    ntf_saved = []
    try:
        appmod.time = sw.VClock(sim.world)
        ntf_saved = sw.install_tempfile_seam(sim.world)
        tempfile.tempdir = sim.tmp
        tempfile._name_sequence = sw.DetNames(sim.cfg.get("name_seed", 0))
        try:
            sim.run()
        except Violation as v:
            res.violation = {"sig": v.sig, "detail": v.detail, "step": v.step}
            sim.log.add({"violation": v.sig, "step": v.step})
        finally:
            # no real child survives a run
            for rec in sim.recs:
                for p in rec.procs:
                    if isinstance(p, RealProc):
                        try:
                            p.popen.kill()
                        except Exception:  # noqa: BLE001
                            pass
                        try:
                            p.popen.communicate(timeout=10)
                        except Exception:  # noqa: BLE001
                            pass
            sim.close()
    finally:
        appmod.time, tempfile.tempdir, tempfile._name_sequence, cwd, ctrl = saved
        sw.remove_tempfile_seam(ntf_saved)
        if ctrl is None:
            os.environ.pop("VERIF_TOOL_CTRL", None)
        else:
            os.environ["VERIF_TOOL_CTRL"] = ctrl
        try:
            os.chdir(cwd)
        except OSError:
            pass
        shutil.rmtree(sim.root, ignore_errors=True)
    res.sim_time = sim.world.now - sw.EPOCH
    res.nontrivial = res.n_ops >= 3 and sim.launched_any
    res.digest = sim.log.digest()
    res.log = sim.log.tail if keep_log else None
    return res


def real_expressible(spec):
    if any("intr" in o for o in spec["ops"]):
        return False
    if any(w["script"].get("big_output") for w in spec["cfg"]["wrappers"]):
        return False  # the gate of the real fake executable waits for the child's exit, which needs a reader
    for w in spec["cfg"]["wrappers"]:
        if w["kind"] == "stubpoll" or w["script"].get("launch") in ("eagain", "interrupt") or w["script"].get("post_launch") == "interrupt":
            return False
        if (w.get("version") or {}).get("kind") == "enoent":
            return False
        if w["kind"] in ("muscle3", "muscle5") and w["script"].get("launch", "ok") != "ok":
            return False  # a really missing binary already fails the constructor's version probe
    return not any(o.get("op") == "align" for o in spec["ops"])


class _RealModule:
    PROP = PROP
    SEED_NAMESPACE = "C20-real"
    STALL_SECONDS = 300

    def generate_indexed(self, index, rng):
        # rejection sampling inside one run's PRNG keeps the spec a pure function of the index
        for _ in range(50):
            spec = generate(rng)
            if real_expressible(spec):
                return spec
        return {"cfg": {"wrappers": [], "jumps": [], "name_seed": 0}, "ops": []}

    @staticmethod
    def execute(spec, keep_log=0):
        return execute_real(spec, keep_log=keep_log)


REAL_MODULE = _RealModule()
REAL_RUNS = {"quick": 400, "thorough": 20000}
PHASE_MODULES["real"] = REAL_MODULE
