"""C02 - a bond list is a set of undirected typed bonds with safe indices.

Seeded histories over a small register file of BondList objects, refined step by step against a dict
model. Atom indices outside [-n, n) are the injected faults; every operation carrying one is first run
in a one-operation *probe child* forked from the current state, so that death of the process, silent
acceptance and corruption are observable outcomes that can be attributed and do not end the history."""

import os
import pickle
import signal

import numpy as np

from ..core import EventLog, RunResult, Violation, call, exc_name, match_known

PROP = "C02"
TIERS = {"quick": 20000, "thorough": 1500000}
WALL_CAP = {"quick": 900, "thorough": 6 * 3600}
SHRINK_BUDGET = 250

COMPONENTS = {
    "real": ["biotite.structure.bonds (compiled extension as on disk): BondList, BondType", "numpy", "networkx (as_graph)"],
    "stub": [],
}
RULE = ("Each run: up to 3 BondList registers, up to 30 operations (constructor with duplicates/reversed/negative indices, add/remove/"
        "remove_bonds_to/remove_bonds/merge/concatenate/+/offset/aromaticity/order stripping/copy/indexing with int, slices, masks, index "
        "arrays), every view compared with the dict model after every step; about a third of the runs inject out-of-range atom indices. "
        "Non-trivial: >= 3 operations of which >= 1 mutates a list that holds >= 1 bond; distinct = distinct (cfg, ops) hashes.")
ASSUMPTIONS = [
    "self-bonds (i, i) and masks of the wrong length are not generated (the statement speaks of pairs and of atom indices)",
    "an OverflowError for an integer that does not fit the C parameter type counts as a rejection, like IndexError",
    "bond types are the ten members of BondType",
]
PROBES = ["oob-index-probed", "duplicate-index-array", "unsorted-negative-index-array", "strided-slice", "noncontiguous-mask", "read-only-index-array",
          "constructor-duplicates", "merge-different-counts", "views-compared"]

NTYPES = 10
INT32_MAX = 2**31 - 1


# ================================================================================================
# model
# ================================================================================================

class MB:
    def __init__(self, n, bonds=None):
        self.n = n
        self.b = dict(bonds or {})

    def copy(self):
        return MB(self.n, self.b)


def key(i, j):
    return (i, j) if i < j else (j, i)


def norm(i, n):
    """positive index or None when out of [-n, n)"""
    if i < -n or i >= n:
        return None
    return i + n if i < 0 else i


def model_index(m, idx):
    """Result model of bonds[idx] for a non-scalar index; raises IndexError/NotImplementedError like the documentation says."""
    sel = np.arange(m.n)[np_index(idx)]
    sel = [int(x) for x in np.atleast_1d(sel)]
    if len(set(sel)) != len(sel):
        raise NotImplementedError("duplicate")
    pos = {old: new for new, old in enumerate(sel)}
    out = MB(len(sel))
    for (i, j), t in m.b.items():
        if i in pos and j in pos:
            out.b[key(pos[i], pos[j])] = t
    return out


def np_index(idx):
    a = _np_index(idx)
    if idx.get("ro") and isinstance(a, np.ndarray):
        a.flags.writeable = False  # e.g. what np.broadcast_to, np.frombuffer or a memory-mapped file hand out
    return a


def _np_index(idx):
    t = idx["t"]
    if t == "slice":
        return slice(*idx["v"])
    if t == "mask":
        if idx.get("as") == "list":
            return [bool(x) for x in idx["v"]]
        return np.array(idx["v"], dtype=bool)
    if t == "ncmask":
        full = np.zeros(2 * len(idx["v"]), dtype=bool)
        full[::2] = idx["v"]
        return full[::2]
    if t == "arr":
        return np.array(idx["v"], dtype=idx.get("dtype", "int64"))
    if t == "list":
        return list(idx["v"])
    raise AssertionError(t)


# ================================================================================================
# generation
# ================================================================================================

def gen_bonds(rng, n, k):
    out = []
    if n < 2:
        return out
    for _ in range(k):
        i = rng.randrange(n)
        j = rng.randrange(n)
        if i == j:
            continue
        out.append([i, j, rng.randrange(NTYPES)])
    return out


def oob_value(rng, n):
    return rng.choice([n, n + 1, 2 * n + 1, -n - 1, -n - 2, -2 * n - 1, INT32_MAX, -INT32_MAX, 2**31, -(2**31) - 1, 2**40])


def gen_index(rng, m, faulty):
    n = m.n
    has_bonds = True
    r = rng.random()
    if r < 0.25:
        start = rng.choice([None, 0, 1, -1, -n, n // 2, rng.randint(-n - 2, n + 2)])
        stop = rng.choice([None, n, -1, 0, n // 2, rng.randint(-n - 2, n + 2)])
        step = rng.choice([None, 1, 2, 3, -1, -2])
        return {"t": "slice", "v": [start, stop, step]}
    if r < 0.5:
        v = [rng.random() < 0.6 for _ in range(n)]
        t = "ncmask" if rng.random() < 0.12 else "mask"
        if t == "mask" and rng.random() < 0.08:
            return {"t": t, "v": v, "ro": True}
        if t == "mask" and v and rng.random() < 0.2:
            return {"t": t, "v": v, "as": "list"}  # a plain Python list of bools is a mask for numpy, too
        return {"t": t, "v": v}
    k = rng.randint(0, n)
    v = rng.sample(range(n), k) if n else []
    v = [x - n if rng.random() < 0.3 else x for x in v]
    if v and rng.random() < 0.08:
        v.append(v[0])  # duplicate: documented NotImplementedError
    if faulty and rng.random() < 0.3:
        v.insert(rng.randint(0, len(v)), oob_value(rng, n) if rng.random() < 0.7 else rng.choice([n, -n - 1]))
    if faulty and rng.random() < 0.08:
        # the top of the unsigned 64-bit range: -1 or -n after a cast to uint64, values that wrap to an in-range negative
        # number when squeezed into a signed type
        v = [x % n if x < 0 and n else x for x in v if x >= 0 or n]
        v.insert(rng.randint(0, len(v)), rng.choice([2**64 - 1, 2**64 - max(n, 1), 2**63, 2**63 + 1]))
        out = {"t": "arr", "v": v, "dtype": "uint64"}
        if rng.random() < 0.15:
            out["ro"] = True
        return out
    big = any(abs(x) > INT32_MAX for x in v)
    dtypes = ["int64", "int64", "int32"]
    if all(0 <= x < 128 for x in v):
        dtypes += ["uint8", "uint32", "uint64", "int16", "int8"]
    elif all(-128 <= x < 128 for x in v):
        dtypes += ["int16", "int8"]
    out = {"t": "arr" if rng.random() < 0.85 or big else "list", "v": v, "dtype": rng.choice(dtypes) if not big else "int64"}
    if out["t"] == "arr" and rng.random() < 0.15:
        out["ro"] = True
    return out


def generate(rng):
    faulty = rng.random() < 0.35
    nreg = rng.choice([1, 2, 3])
    cfg = {"faulty": faulty, "nreg": nreg, "observe": rng.choice(["all", "all", "sparse"])}
    ops = []
    ms = [None] * nreg
    nops = rng.randint(3, 30)

    def live():
        return [i for i, m in enumerate(ms) if m is not None]

    def idx_in(m):
        if faulty and rng.random() < 0.25:
            return oob_value(rng, m.n)
        if m.n == 0:
            return rng.choice([0, -1])  # always out of range for an empty list
        return rng.randint(-m.n, m.n - 1)

    while len(ops) < nops:
        lv = live()
        r = rng.random()
        if not lv or r < 0.08:
            dst = rng.randrange(nreg)
            n = rng.choice([0, 1, 2, 3, 5, 8, 12, rng.randint(0, 12)])
            k = rng.choice([0, 1, 3, 6, 12, 30]) if n >= 2 else 0
            bonds = gen_bonds(rng, n, k)
            if rng.random() < 0.02:
                # a hub: one atom with more partners than a byte (or a signed byte) can count - a metal centre in a
                # coarse-grained model, a solvent shell; per-atom counters of one byte would wrap
                n = rng.choice([140, 270, 300])
                hub = rng.choice([0, n // 2, n - 1])
                bonds = [[hub, p, rng.randrange(NTYPES)] if rng.random() < 0.5 else [p, hub, rng.randrange(NTYPES)]
                         for p in range(n) if p != hub and rng.random() < 0.97]
            # duplicates with another type, reversed pairs, in-range negative indices
            for b in list(bonds):
                x = rng.random()
                if x < 0.15:
                    bonds.append([b[1], b[0], rng.randrange(NTYPES)])
                elif x < 0.3:
                    bonds.append([b[0], b[1], rng.randrange(NTYPES)])
            bonds = [[i - n if rng.random() < 0.2 else i, j - n if rng.random() < 0.2 else j, t] for i, j, t in bonds]
            rng.shuffle(bonds)
            if faulty and bonds and rng.random() < 0.2:
                bonds[rng.randrange(len(bonds))][rng.randrange(2)] = rng.choice([n, n + 3, -n - 1, -2 * n - 2])
            op = {"op": "new", "dst": dst, "n": n, "bonds": bonds, "cols": rng.choice([2, 3, 3]), "dtype": rng.choice(["int64", "int32", "int64"])}
            if faulty and bonds and n and rng.random() < 0.08:
                op["bonds"] = bonds = [[i % n if i < 0 else i, j % n if j < 0 else j, t] for i, j, t in bonds]
                bonds[rng.randrange(len(bonds))][rng.randrange(2)] = rng.choice([2**64 - 1, 2**64 - n, 2**63])
                op["dtype"] = "uint64"
            if bonds and rng.random() < 0.35:
                # other integer dtypes a caller may hold (uint32 is what as_array() hands out); only where every value and
                # the atom count fit the type
                vals = [v for b in bonds for v in b] + [n]
                cands = [d for d in ("uint32", "uint64", "uint16", "uint8", "int16", "int8")
                         if np.iinfo(d).min <= min(vals) and max(vals) <= np.iinfo(d).max]
                if cands:
                    op["dtype"] = rng.choice(cands)
            if rng.random() < 0.4:
                # memory layout of the (n,2)/(n,3) array: column-major, forced C order, a strided view, read-only
                op["layout"] = rng.choice(["F", "F", "C", "rev", "ro"])
            ops.append(op)
            res = apply_model(ms, op)
            if res[0] == "ok":
                ms[dst] = res[1]
            continue
        if rng.random() < 0.01:
            n = rng.choice([65537, 70000, 100003, 2**17, 2**20 + 7])
            bonds = []
            for _ in range(rng.randint(1, 4)):
                i = rng.randrange(0, max(1, min(n, (n * n - 2**32) // n) - 1))
                j = rng.randrange(i + 1, n)
                bonds.append([i, j, rng.randrange(NTYPES)])
                i2, j2 = divmod(i * n + j + 2**32, n)
                if i2 < j2 < n and rng.random() < 0.8:
                    bonds.append([i2, j2, rng.randrange(NTYPES)])  # same key modulo 2^32
            rng.shuffle(bonds)
            seen = set()
            bonds = [b for b in bonds if (b[0], b[1]) not in seen and not seen.add((b[0], b[1]))]
            ops.append({"op": "big", "n": n, "bonds": bonds})
            continue
        a = rng.choice(lv)
        m = ms[a]
        if r < 0.30:
            # t None: the documented default (BondType.ANY) is left to the library
            op = {"op": "add_bond", "r": a, "i": idx_in(m), "j": idx_in(m), "t": rng.randrange(NTYPES) if rng.random() < 0.8 else None}
            if m.b and rng.random() < 0.3 and not faulty:
                (i, j) = rng.choice(sorted(m.b))
                op["i"], op["j"] = (j, i) if rng.random() < 0.5 else (i, j)
        elif r < 0.40:
            op = {"op": "remove_bond", "r": a, "i": idx_in(m), "j": idx_in(m)}
            if m.b and rng.random() < 0.7:
                (i, j) = rng.choice(sorted(m.b))
                if not (faulty and rng.random() < 0.3):
                    op["i"], op["j"] = (j - m.n, i) if rng.random() < 0.5 else (i, j)
        elif r < 0.46:
            op = {"op": "remove_bonds_to", "r": a, "i": idx_in(m)}
        elif r < 0.52:
            op = {"op": "get_bonds", "r": a, "i": idx_in(m), "how": rng.choice(["method", "getitem"])}
        elif r < 0.56:
            if m.n < 2:
                continue
            i, j = rng.sample(range(m.n), 2)
            if m.b and rng.random() < 0.5:
                i, j = rng.choice(sorted(m.b))
            op = {"op": "contains", "r": a, "i": i, "j": j}
        elif r < 0.70:
            op = {"op": "index", "r": a, "dst": rng.randrange(nreg), "idx": gen_index(rng, m, faulty)}
        elif r < 0.75:
            op = {"op": "merge", "r": a, "r2": rng.choice(lv), "dst": rng.randrange(nreg)}
        elif r < 0.81:
            op = {"op": "concat", "rs": [rng.choice(lv) for _ in range(rng.randint(1, 3))], "dst": rng.randrange(nreg), "plus": False}
            if len(op["rs"]) == 2 and rng.random() < 0.5:
                op["plus"] = True
            else:
                # documented: an iterable of BondList objects
                op["as"] = rng.choice(["list", "list", "tuple", "generator", "iter"])
            if sum(ms[x].n for x in op["rs"]) > 700:
                # keep the registers small enough for the n x n views to stay cheap (hub lists have up to 300 atoms)
                op["rs"] = op["rs"][:1]
                op["plus"] = False
                op.setdefault("as", "list")
                if ms[op["rs"][0]].n > 700:
                    continue
        elif r < 0.85:
            op = {"op": "remove_bonds", "r": a, "r2": rng.choice(lv)}
        elif r < 0.89:
            op = {"op": "offset", "r": a, "k": rng.choice([0, 1, 2, 5]) if not (faulty and rng.random() < 0.3) else -1}
        elif r < 0.92:
            op = {"op": "remove_aromaticity", "r": a}
        elif r < 0.94:
            op = {"op": "remove_bond_order", "r": a}
        else:
            op = {"op": "copy", "r": a, "dst": rng.randrange(nreg)}
        if op["op"] in ("add_bond", "remove_bond", "remove_bonds_to", "get_bonds", "contains") and rng.random() < 0.3:
            op["np"] = rng.choice(["int64", "int64", "int32", "uint8", "intp", "int16", "uint64"])
        ops.append(op)
        res = apply_model(ms, op)
        if res[0] == "ok" and res[1] is not None:
            ms[op.get("dst", op.get("r"))] = res[1]
    return {"cfg": cfg, "ops": ops}


def fits_int32(x):
    return -(2**31) <= x <= INT32_MAX


def apply_model(ms, op):
    """Returns ('ok', new model for the target register or None for pure queries, value)
    or ('reject', kind) where kind names the documented refusal."""
    name = op["op"]
    if name == "new":
        n = op["n"]
        m = MB(n)
        for i, j, t in op["bonds"]:
            a, b = norm(i, n), norm(j, n)
            if a is None or b is None:
                return ("reject", "index")
        for i, j, t in op["bonds"]:
            k = key(norm(i, n), norm(j, n))
            if k not in m.b:
                m.b[k] = t if op["cols"] == 3 else 0
        return ("ok", m, None)
    if name in ("merge",):
        a, b = ms[op["r"]], ms[op["r2"]]
        if a is None or b is None:
            return ("skip",)
        m = MB(max(a.n, b.n), a.b)
        m.b.update(b.b)  # the argument wins
        return ("ok", m, None)
    if name == "concat":
        lists = [ms[r] for r in op["rs"]]
        if any(x is None for x in lists):
            return ("skip",)
        m = MB(0)
        for x in lists:
            for (i, j), t in x.b.items():
                m.b[(i + m.n, j + m.n)] = t
            m.n += x.n
        return ("ok", m, None)
    m = ms[op["r"]]
    if m is None:
        return ("skip",)
    n = m.n
    if name == "add_bond":
        a, b = norm(op["i"], n), norm(op["j"], n)
        if a is None or b is None:
            return ("reject", "index")
        if a == b:
            return ("skip",)
        m2 = m.copy()
        m2.b[key(a, b)] = op["t"] if op["t"] is not None else 0
        return ("ok", m2, None)
    if name == "remove_bond":
        a, b = norm(op["i"], n), norm(op["j"], n)
        if a is None or b is None:
            return ("reject", "index")
        m2 = m.copy()
        m2.b.pop(key(a, b), None)
        return ("ok", m2, None)
    if name == "remove_bonds_to":
        a = norm(op["i"], n)
        if a is None:
            return ("reject", "index")
        m2 = MB(n, {k: t for k, t in m.b.items() if a not in k})
        return ("ok", m2, None)
    if name == "get_bonds":
        a = norm(op["i"], n)
        if a is None:
            return ("reject", "index")
        return ("ok", None, sorted((j if i == a else i, t) for (i, j), t in m.b.items() if a in (i, j)))
    if name == "contains":
        return ("ok", None, key(op["i"], op["j"]) in m.b)
    if name == "index":
        idx = op["idx"]
        if idx["t"] in ("mask", "ncmask") and len(idx["v"]) != n:
            return ("skip",)  # never generated; only shrinking candidates get here (wrong-length masks are outside the statement)
        if idx["t"] in ("arr", "list") and any(norm(x, n) is None for x in idx["v"]):
            return ("reject", "index")
        try:
            return ("ok", model_index(m, idx), None)
        except NotImplementedError:
            return ("reject", "duplicate")
        except IndexError:
            return ("reject", "index")
    if name == "remove_bonds":
        o = ms[op["r2"]]
        if o is None:
            return ("skip",)
        return ("ok", MB(n, {k: t for k, t in m.b.items() if k not in o.b}), None)
    if name == "offset":
        if op["k"] < 0:
            return ("reject", "value")
        return ("ok", MB(n + op["k"], {(i + op["k"], j + op["k"]): t for (i, j), t in m.b.items()}), None)
    if name == "remove_aromaticity":
        mp = {5: 1, 6: 2, 7: 3, 9: 0}
        return ("ok", MB(n, {k: mp.get(t, t) for k, t in m.b.items()}), None)
    if name == "remove_bond_order":
        return ("ok", MB(n, {k: 0 for k in m.b}), None)
    if name == "copy":
        return ("ok", m.copy(), None)
    raise AssertionError(name)


# ================================================================================================
# execution
# ================================================================================================

def views(bl):
    """Everything observable about a BondList, in canonical plain-Python form."""
    arr = bl.as_array()
    n = bl.get_atom_count()
    out = {"n": int(n), "count": int(bl.get_bond_count()), "array": [[int(x) for x in row] for row in arr.tolist()],
           "set": sorted((int(a), int(b), int(t)) for a, b, t in bl.as_set())}
    per_atom = []
    for i in range(n):
        b, t = bl.get_bonds(i)
        per_atom.append(sorted(zip([int(x) for x in b], [int(x) for x in t])))
    out["per_atom"] = per_atom
    ab, at = bl.get_all_bonds()
    rows = []
    for i in range(n):
        row = [(int(x), int(y)) for x, y in zip(ab[i].tolist(), at[i].tolist())]
        pad = [p for p in row if p[0] == -1]
        if any(p != (-1, -1) for p in pad):
            rows.append("bad-padding")
        else:
            rows.append(sorted(p for p in row if p[0] != -1))
    out["all_bonds"] = rows
    out["all_bonds_shape"] = [int(x) for x in ab.shape]
    out["adjacency"] = np.argwhere(bl.adjacency_matrix()).tolist()
    btm = bl.bond_type_matrix()
    out["type_matrix"] = [[int(i), int(j), int(btm[i, j])] for i, j in np.argwhere(btm != -1).tolist()]
    out["matrix_shapes"] = [list(bl.adjacency_matrix().shape), list(btm.shape)]
    return out


def near_misses(m):
    """Bond mappings that differ from m.b as little as possible (see check_reg)."""
    items = sorted(m.b.items())
    out = []
    if items:
        (i, j), t = items[0]
        d = dict(m.b)
        d[(i, j)] = (t + 1) % 7
        out.append(("one type changed", d))
        d = dict(m.b)
        del d[items[-1][0]]
        out.append(("one bond fewer", d))
    free = [(a, b) for a in range(min(m.n, 6)) for b in range(a + 1, min(m.n, 6)) if (a, b) not in m.b]
    if free:
        d = dict(m.b)
        d[free[0]] = 1
        out.append(("one bond more", d))
    for x in range(min(len(items), 40)):
        for y in range(x + 1, min(len(items), x + 4)):
            (a, b), t1 = items[x]
            (c, e), t2 = items[y]
            if t1 != t2 and not any(l == "two bonds exchanged their types" for l, _ in out):
                d = dict(m.b)
                d[(a, b)], d[(c, e)] = t2, t1
                out.append(("two bonds exchanged their types", d))
            # (a,b),(c,e) -> (a,e),(c,b): the multisets of lower atoms, of higher atoms and of types stay what they were
            if b != e and a < e and c < b and (a, e) not in m.b and (c, b) not in m.b and \
                    not any(l == "two bonds exchanged their partners" for l, _ in out):
                d = dict(m.b)
                del d[(a, b)], d[(c, e)]
                d[(a, e)], d[(c, b)] = t1, t2
                out.append(("two bonds exchanged their partners", d))
    return out


def expected_views(m):
    items = sorted((i, j, t) for (i, j), t in m.b.items())
    per_atom = [[] for _ in range(m.n)]
    for i, j, t in items:
        per_atom[i].append((j, t))
        per_atom[j].append((i, t))
    per_atom = [sorted(x) for x in per_atom]
    adj = sorted([i, j] for i, j, _ in items) + sorted([j, i] for i, j, _ in items)
    tm = sorted([[i, j, t] for i, j, t in items] + [[j, i, t] for i, j, t in items])
    return {"n": m.n, "count": len(items), "set": items, "per_atom": per_atom, "all_bonds": per_atom,
            "adjacency": sorted(adj), "type_matrix": tm, "matrix_shapes": [[m.n, m.n], [m.n, m.n]]}


class Sim:
    def __init__(self, spec, keep_log):
        from biotite.structure import BondList

        self.BL = BondList
        self.spec = spec
        self.res = RunResult()
        self.log = EventLog(spec.get("seed", "replay"))
        self.log.keep = keep_log
        self.nreg = spec["cfg"]["nreg"]
        self.regs = [None] * self.nreg
        self.ms = [None] * self.nreg
        self.step = -1
        self.mutated_nonempty = False
        self.known = []

    def fail(self, sig, **detail):
        raise Violation(sig, detail, self.step)

    # ---- comparison of one register with its model ---------------------------------------------------------
    def check_reg(self, r, after):
        bl, m = self.regs[r], self.ms[r]
        if (bl is None) != (m is None):
            self.fail("harness:register-mismatch", reg=r)
        if bl is None:
            return
        st, v = call(views, bl)
        if st == "exc":
            self.fail("view:raised", after=after, got=exc_name(v), msg=str(v)[:200])
        e = expected_views(m)
        self.res.stats["probe:views-compared"] += 1
        for k in ("n", "count", "set", "per_atom", "all_bonds", "matrix_shapes"):
            if v[k] != e[k]:
                self.fail("view:" + k + "-differs", after=after, got=v[k], expected=e[k], model=sorted(m.b.items()))
        if sorted(v["adjacency"]) != e["adjacency"]:
            self.fail("view:adjacency-differs", after=after, got=v["adjacency"], expected=e["adjacency"])
        if sorted(v["type_matrix"]) != e["type_matrix"]:
            self.fail("view:type_matrix-differs", after=after, got=v["type_matrix"], expected=e["type_matrix"])
        rows = v["array"]
        if any(not (a < b) for a, b, _ in rows) or len({(a, b) for a, b, _ in rows}) != len(rows):
            self.fail("view:array-not-canonical", after=after, got=rows)
        if sorted(tuple(x) for x in rows) != e["set"]:
            self.fail("view:array-differs", after=after, got=rows, expected=e["set"])
        maxb = max((len(x) for x in e["per_atom"]), default=0)
        # the table may be wider than necessary (the cached maximum is not lowered when bonds are removed;
        # the statement asks for the neighbours, padded with -1), but never narrower
        if v["all_bonds_shape"][0] != m.n or v["all_bonds_shape"][1] < maxb:
            self.fail("view:all_bonds-shape", after=after, got=v["all_bonds_shape"], expected=[m.n, maxb])
        # equality against a list rebuilt from the model, and inequality against a perturbed one
        ref = self.BL(m.n, np.array([[i, j, t] for (i, j), t in sorted(m.b.items())], dtype=np.int64).reshape(-1, 3))
        st, eq = call(lambda: bl == ref)
        if st == "exc" or eq is not True:
            self.fail("view:eq-with-rebuilt-list", after=after, got=eq if st == "ok" else exc_name(eq))
        other = self.BL(m.n + 1)
        st, eq = call(lambda: bl == other)
        if st == "exc" or eq is not False:
            self.fail("view:eq-with-different-list", after=after, got=eq if st == "ok" else exc_name(eq))
        # near misses: lists that differ from the model in one place, or in two places that compensate each other in every
        # per-column statistic (two bonds exchanged their types / their partner atoms); all must compare unequal, both ways
        if self.step % 2 == 0 and m.n <= 400:
            for label, bonds in near_misses(m):
                nm = self.BL(m.n, np.array([[i, j, t] for (i, j), t in sorted(bonds.items())], dtype=np.int64).reshape(-1, 3))
                for side, fn in (("left", lambda: bl == nm), ("right", lambda: nm == bl)):
                    st, eq = call(fn)
                    if st == "exc" or eq is not False:
                        self.fail("view:eq-true-for-different-list", after=after, what=label, live_list_on=side,
                                  got=eq if st == "ok" else exc_name(eq))
                st, ne = call(lambda: bl != nm)
                if st == "exc" or ne is not True:
                    self.fail("view:ne-false-for-different-list", after=after, what=label, got=ne if st == "ok" else exc_name(ne))
            self.res.stats["probe:eq-near-misses"] += 1
        if self.step % 4 == 0:
            st, g = call(bl.as_graph)
            if st == "exc":
                self.fail("view:as_graph-raised", got=exc_name(g))
            edges = sorted((min(int(a), int(b)), max(int(a), int(b)), int(d["bond_type"])) for a, b, d in g.edges(data=True))
            if edges != e["set"]:
                self.fail("view:graph-differs", after=after, got=edges, expected=e["set"])
        for (i, j) in list(m.b)[:3]:
            st, c = call(lambda: (i, j) in bl and (j, i) in bl)
            if st == "exc" or c is not True:
                self.fail("view:membership", after=after, pair=[i, j])

    def check_all(self, after):
        for r in range(self.nreg):
            self.check_reg(r, after)

    # ---- operations --------------------------------------------------------------------------------------------
    def thunk(self, op):
        """A zero-argument callable performing op on the real objects, returning (new object for dst or None, value)."""
        name = op["op"]
        R = self.regs
        BL = self.BL
        if name == "new":
            def f():
                if op["bonds"]:
                    a = np.array(op["bonds"], dtype=op["dtype"])[:, :op["cols"]]
                    lay = op.get("layout")
                    if lay == "F":
                        a = np.asfortranarray(a)  # what np.array([first, second, types]).T gives
                    elif lay == "C":
                        a = np.ascontiguousarray(a)
                    elif lay == "rev":
                        a = a[::-1][::-1]  # doubly reversed view: same rows, negative-then-positive strides
                    elif lay == "ro":
                        a = np.ascontiguousarray(a)
                        a.flags.writeable = False
                    return BL(op["n"], a), None
                return BL(op["n"]), None
            return f
        def sc(v):
            """The scalar index as the caller holds it: a Python int, or the numpy integer scalar np.where / argmax /
            iterating over an index array hand out (when the value fits that type)."""
            t = op.get("np")
            if t is None:
                return v
            info = np.iinfo(getattr(np, t))
            return getattr(np, t)(v) if info.min <= v <= info.max else v

        if name == "add_bond":
            if op["t"] is None:
                return lambda: (None, R[op["r"]].add_bond(sc(op["i"]), sc(op["j"])))
            return lambda: (None, R[op["r"]].add_bond(sc(op["i"]), sc(op["j"]), op["t"]))
        if name == "remove_bond":
            return lambda: (None, R[op["r"]].remove_bond(sc(op["i"]), sc(op["j"])))
        if name == "remove_bonds_to":
            return lambda: (None, R[op["r"]].remove_bonds_to(sc(op["i"])))
        if name == "get_bonds":
            if op["how"] == "method":
                return lambda: (None, R[op["r"]].get_bonds(sc(op["i"])))
            return lambda: (None, R[op["r"]][sc(op["i"])])
        if name == "contains":
            return lambda: (None, (sc(op["i"]), sc(op["j"])) in R[op["r"]])
        if name == "index":
            return lambda: (R[op["r"]][np_index(op["idx"])], None)
        if name == "merge":
            return lambda: (R[op["r"]].merge(R[op["r2"]]), None)
        if name == "concat":
            if op["plus"]:
                return lambda: (R[op["rs"][0]] + R[op["rs"][1]], None)
            def cat():
                parts = [R[r] for r in op["rs"]]
                how = op.get("as", "list")
                arg = {"list": parts, "tuple": tuple(parts), "generator": (x for x in parts), "iter": iter(parts)}[how]
                return BL.concatenate(arg), None
            return cat
        if name == "remove_bonds":
            return lambda: (None, R[op["r"]].remove_bonds(R[op["r2"]]))
        if name == "offset":
            return lambda: (None, R[op["r"]].offset_indices(op["k"]))
        if name == "remove_aromaticity":
            return lambda: (None, R[op["r"]].remove_aromaticity())
        if name == "remove_bond_order":
            return lambda: (None, R[op["r"]].remove_bond_order())
        if name == "copy":
            return lambda: (R[op["r"]].copy(), None)
        raise AssertionError(name)

    def scalar_oob(self, op):
        """Class of an out-of-range *scalar* atom index carried by op, or None."""
        name = op["op"]
        if name not in ("add_bond", "remove_bond", "remove_bonds_to", "get_bonds"):
            return None
        m = self.ms[op["r"]]
        cls = None
        for k in ("i", "j"):
            if k in op and norm(op[k], m.n) is None:
                x = op[k]
                c = "below -n" if x < 0 else "n or above"
                if not fits_int32(x):
                    c += " (beyond int32)"
                cls = c if cls is None else cls + " + " + c
        return cls

    def probe(self, op, f):
        """Run f in a forked child that reports its outcome and all views; the parent's state is untouched."""
        self.res.stats["probe:oob-index-probed"] += 1
        r, w = os.pipe()
        pid = os.fork()
        if pid == 0:
            os.close(r)
            code = 0
            try:
                import faulthandler

                faulthandler.disable()  # a dying probe is an expected outcome, not noise for stderr
                signal.alarm(20)
                try:
                    f()
                    out = ("ok", [views(x) if x is not None else None for x in self.regs])
                except BaseException as e:  # noqa: BLE001
                    out = ("exc", type(e).__name__)
                with os.fdopen(w, "wb") as fh:
                    pickle.dump(out, fh)
            except BaseException:  # noqa: BLE001
                code = 3
            finally:
                os._exit(code)
        os.close(w)
        with os.fdopen(r, "rb") as fh:
            data = fh.read()
        _, status = os.waitpid(pid, 0)
        if os.WIFSIGNALED(status):
            return ("died", os.WTERMSIG(status))
        if not data:
            return ("died", None)
        return pickle.loads(data)

    def run(self):
        for i, op in enumerate(self.spec["ops"]):
            self.step = i
            self.res.n_ops += 1
            self.res.stats["op:" + op["op"]] += 1
            out = self.do(op)
            self.res.features.add((op["op"], (op.get("idx") or {}).get("t"), out))
            self.log.add({"i": i, "op": op["op"], "out": out,
                          "state": [None if m is None else [m.n, len(m.b)] for m in self.ms]})
            # Observing a list can repair lazily maintained internal state and so hide a defect that needs two
            # operations in a row without a query in between: in "sparse" runs the views are compared only every fourth
            # step and after the last one (a disagreement is then reported a few steps late, but it is reported)
            sparse = self.spec["cfg"].get("observe") == "sparse"
            last = i == len(self.spec["ops"]) - 1
            if out != "skip" and (not sparse or last or i % 4 == 3):
                self.check_all(op["op"])
            elif out != "skip":
                self.res.stats["probe:step-without-observation"] += 1

    def op_big(self, op):
        """A bond list over a very large atom count (ribosomes, capsids) with a handful of bonds: the cheap views only
        (no n x n matrices). The bonds include pairs whose row-major keys i*n+j agree modulo 2^32, so index arithmetic
        squeezed into 32 bits would confuse them."""
        n, bonds = op["n"], op["bonds"]
        model = {}
        for i, j, t in bonds:
            model.setdefault((min(i, j), max(i, j)), t)
        self.res.stats["probe:huge-atom-count"] += 1

        def views(bl):
            arr = bl.as_array()
            got = {(int(a), int(b)): int(t) for a, b, t in arr.tolist()}
            if len(arr) != len(got) or got != model or bl.get_bond_count() != len(model) or bl.get_atom_count() != n:
                return "array/count", sorted(got.items())
            if bl.as_set() != {(a, b, t) for (a, b), t in model.items()}:
                return "set", sorted(bl.as_set())
            for (a, b), t in model.items():
                if (a, b) not in bl or (b, a) not in bl:
                    return "membership", [a, b]
                idx, types = bl.get_bonds(a)
                exp = sorted((y if x == a else x, tt) for (x, y), tt in model.items() if a in (x, y))
                if sorted(zip([int(v) for v in idx], [int(v) for v in types])) != exp:
                    return "get_bonds", [a, [int(v) for v in idx]]
            return None

        def build(rows):
            return self.BL(n, np.array(rows, dtype=np.int64)) if rows else self.BL(n)

        st, v = call(lambda: views(build(bonds)))
        if st == "exc" or v is not None:
            self.fail("view:huge-atom-count", how="constructor", n=n, got=exc_name(v) if st == "exc" else list(v), bonds=bonds)
        half = len(bonds) // 2
        st, v = call(lambda: views(build(bonds[:half]).merge(build(bonds[half:]))))
        if st == "exc" or v is not None:
            self.fail("view:huge-atom-count", how="merge", n=n, got=exc_name(v) if st == "exc" else list(v), bonds=bonds)
        return "ok"

    def do(self, op):
        if op["op"] == "big":
            return self.op_big(op)
        res = apply_model(self.ms, op)
        if res[0] == "skip":
            return "skip"
        name = op["op"]
        f = self.thunk(op)
        self.note_probes(op)
        cls = self.scalar_oob(op) if res[0] == "reject" else None
        if cls is not None:
            self.res.stats["fault:scalar-index-out-of-range"] += 1
            out = self.probe(op, f)
            detail = {"op": name + ("[int]" if op.get("how") == "getitem" else ""), "index_class": cls.split(" (")[0].split(" + ")[0],
                      "indices": [op.get("i"), op.get("j")], "n": self.ms[op["r"]].n}
            if out[0] == "exc" and out[1] in ("IndexError", "OverflowError"):
                # correct behaviour: safe to execute in this process as well
                st, v = call(f)
                if st == "ok" or not isinstance(v, (IndexError, OverflowError)):
                    self.fail("index-fault:probe-and-parent-disagree", **detail)
                return "rejected:" + out[1]
            if out[0] == "died":
                sig = "index-fault:process-died"
                detail["signal"] = out[1]
            elif out[0] == "exc":
                sig = "index-fault:wrong-exception"
                detail["got"] = out[1]
            else:
                exp = [None if m is None else expected_views(m) for m in self.ms]
                same = all((a is None and b is None) or (a is not None and b is not None and a["set"] == b["set"] and a["n"] == b["n"])
                           for a, b in zip(out[1], exp))
                sig = "index-fault:silently-accepted" if same else "index-fault:list-corrupted"
            k = match_known(PROP, sig, detail)
            if k is None:
                self.fail(sig, **detail)
            self.res.known.append((k["id"], k["text"]))
            self.res.stats["known:" + k["id"]] += 1
            # the operation counts as rejected; the history goes on from the unchanged state
            return "known-finding:" + sig
        st, v = call(f)
        if res[0] == "reject":
            kind = res[1]
            self.res.stats["fault:" + {"index": "array-index-out-of-range", "duplicate": "duplicate-index", "value": "negative-offset"}[kind]] += 1
            if kind == "index":
                ok = isinstance(v, (IndexError, OverflowError)) if st == "exc" else False
            elif kind == "duplicate":
                ok = st == "exc" and isinstance(v, NotImplementedError)
            else:
                ok = st == "exc" and isinstance(v, ValueError)
            if not ok and st == "exc" and name == "index":
                # the refusal came from a recorded defect before the documented one could (e.g. the small-dtype
                # overflow on a duplicate index array): still a refusal, counted under the known finding
                detail = {"op": name, "got": exc_name(v), "msg": str(v)[:200], "index_type": op["idx"]["t"]}
                if op["idx"].get("ro"):
                    detail["readonly"] = True
                k = match_known(PROP, "op:raised", detail)
                if k is not None:
                    self.res.known.append((k["id"], k["text"]))
                    self.res.stats["known:" + k["id"]] += 1
                    return "known-finding:op:raised"
            if not ok:
                self.fail("rejection:wrong-outcome", op=name, kind=kind, got="accepted" if st == "ok" else exc_name(v),
                          idx=op.get("idx"), bonds=op.get("bonds"))
            return "rejected:" + exc_name(v)
        if st == "exc":
            detail = {"op": name, "got": exc_name(v), "msg": str(v)[:200]}
            if name == "index":
                detail["index_type"] = op["idx"]["t"]
                if op["idx"].get("ro"):
                    detail["readonly"] = True
            sig = "op:raised"
            k = match_known(PROP, sig, detail)
            if k is not None:
                self.res.known.append((k["id"], k["text"]))
                self.res.stats["known:" + k["id"]] += 1
                return "known-finding:" + sig
            self.fail(sig, **detail)
        new_obj, val = v
        _, m2, mval = res
        if name == "get_bonds":
            got = sorted(zip([int(x) for x in val[0]], [int(x) for x in val[1]]))
            if got != mval:
                self.fail("view:get_bonds-differs", index=op["i"], got=got, expected=mval)
            return "ok"
        if name == "contains":
            if bool(val) != mval:
                self.fail("view:membership", pair=[op["i"], op["j"]], got=bool(val), expected=mval)
            return "ok"
        tgt = op.get("dst", op.get("r"))
        src = self.ms[op["r"]] if "r" in op else None
        if new_obj is not None:
            self.regs[tgt] = new_obj
        if m2 is not None:
            if src is not None and src.b and name not in ("copy", "index", "merge"):
                self.mutated_nonempty = True
            if name in ("index", "merge", "concat", "new") and m2.b:
                self.mutated_nonempty = True
            self.ms[tgt] = m2
        return "ok"

    def note_probes(self, op):
        st = self.res.stats
        if op["op"] == "index":
            idx = op["idx"]
            if idx["t"] in ("arr", "list"):
                v = idx["v"]
                if len(set(v)) != len(v):
                    st["probe:duplicate-index-array"] += 1
                if any(x < 0 for x in v) and v != sorted(v):
                    st["probe:unsorted-negative-index-array"] += 1
            if idx["t"] == "slice" and idx["v"][2] not in (None, 1):
                st["probe:strided-slice"] += 1
            if idx["t"] == "ncmask":
                st["probe:noncontiguous-mask"] += 1
            if idx.get("ro"):
                st["probe:read-only-index-array"] += 1
        if op["op"] == "new":
            pairs = [tuple(sorted((i % max(op["n"], 1), j % max(op["n"], 1)))) for i, j, _ in op["bonds"]]
            if len(set(pairs)) != len(pairs):
                st["probe:constructor-duplicates"] += 1
        if op["op"] == "merge" and self.ms[op["r"]] is not None and self.ms[op["r2"]] is not None and self.ms[op["r"]].n != self.ms[op["r2"]].n:
            st["probe:merge-different-counts"] += 1


def execute(spec, keep_log=0):
    sim = Sim(spec, keep_log)
    res = sim.res
    try:
        sim.run()
    except Violation as v:
        res.violation = {"sig": v.sig, "detail": v.detail, "step": v.step}
        sim.log.add({"violation": v.sig, "step": v.step})
    res.nontrivial = res.n_ops >= 3 and sim.mutated_nonempty
    res.digest = sim.log.digest()
    res.log = sim.log.tail if keep_log else None
    return res


def simplify(spec):
    import copy

    for i, op in enumerate(spec["ops"]):
        if op["op"] == "new":
            if len(op["bonds"]) > 0:
                for j in range(len(op["bonds"])):
                    s = copy.deepcopy(spec)
                    del s["ops"][i]["bonds"][j]
                    yield s
            if op["n"] > 2:
                mx = max([max(abs(b[0]) + (b[0] >= 0), abs(b[1]) + (b[1] >= 0)) for b in op["bonds"]] + [1])
                if mx < op["n"]:
                    s = copy.deepcopy(spec)
                    s["ops"][i]["n"] = mx
                    yield s
        if op["op"] == "index" and op["idx"]["t"] in ("arr", "list") and len(op["idx"]["v"]) > 1:
            for j in range(len(op["idx"]["v"])):
                s = copy.deepcopy(spec)
                del s["ops"][i]["idx"]["v"][j]
                yield s
    if spec["cfg"]["nreg"] > 1:
        used = {o.get("r") for o in spec["ops"]} | {o.get("dst") for o in spec["ops"]} | {o.get("r2") for o in spec["ops"]} | \
               {x for o in spec["ops"] for x in o.get("rs", [])}
        used.discard(None)
        if used and max(used) < spec["cfg"]["nreg"] - 1:
            s = copy.deepcopy(spec)
            s["cfg"]["nreg"] = max(used) + 1
            yield s
