"""C01 - atom arrays and stacks stay coherent under any sequence of operations.

A register file of live Atom / AtomArray / AtomArrayStack objects is driven by a seeded operation
history and refined, after every step and for every register, against a plain list-of-atoms model
(annotation values per atom, coordinates per model, per-model boxes, bonds as position pairs).
Generation runs on the model alone, so a spec is a pure function of the seed. The multi-party aspect
is the *second holder*: after copy() in-place writes through one holder must never show through the
other; for objects derived by anything else (slices, get_array, stack, ...) nothing is promised and
an in-place write re-synchronises the alias group from the implementation."""

import copy as _copy

import numpy as np

from ..core import EventLog, RunResult, Violation, call, exc_name, match_known

PROP = "C01"
TIERS = {"quick": 20000, "thorough": 2000000}
WALL_CAP = {"quick": 900, "thorough": 8 * 3600}
SHRINK_BUDGET = 250

COMPONENTS = {
    "real": ["biotite.structure.atoms (Atom, AtomArray, AtomArrayStack, array, stack, concatenate, repeat, from_template)",
             "biotite.copyable.Copyable", "biotite.structure.bonds.BondList (compiled extension as on disk)", "numpy indexing"],
    "stub": [],
}
RULE = ("Each run: up to 6 registers, up to 40 operations: create, index (int, slice, mask, index array, ellipsis, 2-D stack indices, "
        "negative values), concatenate/+, stack, repeat, from_template, array(), atom/model deletion, element assignment, annotation edits, "
        "coord/box/bonds assignment, copy, in-place writes through one of two holders, rejected operations. Every register is compared with "
        "the list-of-atoms model after every step. Non-trivial: >= 3 operations, >= 1 of them derives or mutates a container with >= 1 atom; "
        "distinct = distinct (cfg, ops) hashes.")
ASSUMPTIONS = [
    "string annotation values stay within the width of the annotation's dtype (numpy truncates silently, which is not biotite's doing)",
    "index arrays with duplicates are only applied to containers without a bond list (BondList documents NotImplementedError)",
    "a rejected element assignment may be applied partially (no atomicity is stated); only structural coherence is checked afterwards",
    "objects derived by anything other than copy() may share buffers with their source; nothing is checked about that",
    "coord/box assignments keep the stack depth (assigning another depth is not a documented operation)",
]
PROBES = ["negative-unsorted-index-on-bonded", "two-dimensional-index", "negative-int-in-atom-axis-of-stack", "model-deletion-with-box",
          "copy-then-inplace-write", "alias-group-resync", "rejected-op", "empty-container", "duplicate-index-array", "eq-checked"]

# values of different lengths up to the full width of each default dtype (U4, U1, U5, U6, U2): an annotation must keep
# a dtype that can hold them whatever narrower arrays were assigned in between
STR_CATS = {"chain_id": ["A", "B", "C", "WXYZ"], "ins_code": ["", "A"], "res_name": ["ALA", "GLY", "HOH", "ABCDE"],
            "atom_name": ["CA", "N", "O", "CB", "HG1234"], "element": ["C", "N", "O", "CL"], "lbl": ["xxx", "yyy", "zzz"]}
EXTRA = {"uid": "int", "q": "float", "flag": "bool", "lbl": "str", "b32": "float32", "tag": "obj"}
MANDATORY = ["chain_id", "res_id", "ins_code", "res_name", "hetero", "atom_name", "element"]


# ================================================================================================
# model
# ================================================================================================

class M:
    """kind: 'atom' | 'array' | 'stack'. ann: name -> list of python values (atom: single value).
    coord: float32 ndarray (3,), (n,3) or (m,n,3). box: None or (3,3)/(m,3,3). bonds: None or {(i,j): t}."""

    def __init__(self, kind, ann, coord, box=None, bonds=None):
        self.kind = kind
        self.ann = ann
        self.coord = np.array(coord, dtype=np.float32)
        self.box = None if box is None else np.array(box, dtype=np.float32)
        if self.box is not None and kind == "stack" and self.box.size == 0:
            self.box = self.box.reshape(0, 3, 3)
        self.bonds = None if bonds is None else dict(bonds)

    @property
    def n(self):
        return self.coord.shape[-2] if self.kind != "atom" else 1

    @property
    def m(self):
        return self.coord.shape[0] if self.kind == "stack" else None

    def copy(self):
        return M(self.kind, {k: (list(v) if isinstance(v, list) else v) for k, v in self.ann.items()}, self.coord.copy(),
                 None if self.box is None else self.box.copy(), None if self.bonds is None else dict(self.bonds))


class Reject(Exception):
    def __init__(self, kinds):
        self.kinds = kinds  # tuple of acceptable exception class names


def as_iterable(items, how):
    """The documented argument of array() / stack() / concatenate() is an iterable: hand the same items over as a
    list, a tuple, a generator or an iterator."""
    items = list(items)
    if how == "values":
        return {i: x for i, x in enumerate(items)}.values()  # re-iterable, but neither a sequence nor an iterator
    return {"list": items, "tuple": tuple(items), "generator": (x for x in items), "iter": iter(items)}[how or "list"]


def break_annotations(arr, how):
    """Make arr's annotations differ from its siblings': one value, one category more, or one category fewer."""
    opt = [c for c in arr.get_annotation_categories() if c not in MANDATORY]
    if arr.array_length() == 0 and not (how == "del_cat" and opt):
        how = "add_cat"  # no atom whose value could be changed: the set of categories is what can differ
    if how == "add_cat":
        arr.add_annotation("uid2", dtype=int)
    elif how == "del_cat" and opt:
        arr.del_annotation(opt[0])
    else:
        arr.res_id[0] += 1000


def np_index(spec):
    """The index object handed to biotite. 'as' selects another spelling numpy accepts for the same index:
    a numpy integer scalar, a Python list of ints / bools, an int32 array, a read-only array."""
    t = spec["t"]
    how = spec.get("as")
    if t == "int":
        if how == "0d":
            return np.array(spec["v"])
        return np.int64(spec["v"]) if how == "npint" else spec["v"]
    if t == "slice":
        return slice(*spec["v"])
    if t == "mask":
        if how == "list" and spec["v"]:
            return [bool(x) for x in spec["v"]]
        a = np.array(spec["v"], dtype=bool)
        if how == "ro":
            a.flags.writeable = False  # a read-only array (np.broadcast_to, np.frombuffer, memory maps hand out such)
        return a
    if t == "arr":
        if how == "list" and spec["v"]:
            return [int(x) for x in spec["v"]]
        a = np.array(spec["v"], dtype=np.int32 if how == "int32" else np.int64)
        if how == "ro":
            a.flags.writeable = False
        return a
    if t == "range":
        return range(*spec["v"])
    if t == "ell":
        return Ellipsis
    raise AssertionError(t)


def select(L, spec):
    """('int', i) or ('list', [positions]) for a one-axis index on L items; numpy itself defines validity."""
    if spec["t"] == "ell":
        return ("list", list(range(L)))
    try:
        sel = np.arange(L)[np_index(spec)]
    except IndexError:
        raise Reject(("IndexError",))
    if spec["t"] == "int":
        return ("int", int(sel))
    return ("list", [int(x) for x in sel])


def sub_atoms(m, sel):
    """Model of selecting atom positions sel (list) from an array/stack."""
    ann = {k: [v[i] for i in sel] for k, v in m.ann.items()}
    coord = m.coord[..., sel, :] if sel else m.coord[..., :0, :]
    bonds = None
    if m.bonds is not None:
        if len(set(sel)) != len(sel):
            raise Reject(("NotImplementedError",))
        pos = {old: new for new, old in enumerate(sel)}
        bonds = {}
        for (i, j), t in m.bonds.items():
            if i in pos and j in pos:
                a, b = pos[i], pos[j]
                bonds[(a, b) if a < b else (b, a)] = t
    return M(m.kind, ann, coord, m.box, bonds)


def atom_of(m, i, model=None):
    c = m.coord[i] if m.kind == "array" else m.coord[model, i]
    return M("atom", {k: v[i] for k, v in m.ann.items()}, c)


def model_of(m, k):
    """AtomArray model of model k of a stack."""
    return M("array", {a: list(v) for a, v in m.ann.items()}, m.coord[k], None if m.box is None else m.box[k], m.bonds)


def m_index(m, idx):
    """Model of container[idx]."""
    if m.kind == "atom":
        raise Reject(("TypeError",))
    if m.kind == "array":
        if idx["t"] == "2d":
            raise Reject(("IndexError",))
        if idx["t"] == "ell2":
            idx = idx["b"]
        kind, sel = select(m.n, idx)
        if kind == "int":
            return atom_of(m, sel)
        return sub_atoms(m, sel)
    # stack
    if idx["t"] in ("2d", "ell2"):
        a = {"t": "ell"} if idx["t"] == "ell2" else idx["a"]
        b = idx["b"]
        if a["t"] == "int":
            ka, sa = select(m.m, a)
            arr = model_of(m, sa)
            kb, sb = select(m.n, b)
            if kb == "int":
                return atom_of(arr, sb)
            return sub_atoms(arr, sb)
        kb, sb = select(m.n, b)
        if kb == "int":
            sb = [sb]
        out = sub_atoms(m, sb)
        ka, sa = select(m.m, a)
        out.coord = out.coord[sa] if sa else out.coord[:0]
        if out.box is not None:
            out.box = out.box[sa] if sa else out.box[:0]
        return out
    kind, sel = select(m.m, idx)
    if kind == "int":
        return model_of(m, sel).copy()
    out = m.copy()
    out.coord = m.coord[sel] if sel else m.coord[:0]
    if m.box is not None:
        out.box = m.box[sel] if sel else m.box[:0]
    return out


# ================================================================================================
# data
# ================================================================================================

WIDE = {"chain_id": "LONG_ID", "res_name": "RESIDUE7", "atom_name": "ATOMNAME9", "element": "ELEM", "ins_code": "IC", "lbl": "label5"}


def gen_value(rng, name, typ, wide=False):
    if typ == "str":
        if wide and rng.random() < 0.08:
            # wider than the default dtype of the category: legal when the whole array is created or replaced
            # (array() and set_annotation choose a dtype that can hold the values), never used in element assignment
            return WIDE[name]
        return rng.choice(STR_CATS[name])
    if typ == "int":
        return rng.randint(-5, 99)
    if typ == "float":
        return rng.choice([0.0, 0.5, -1.25, 3.0, 1e6, float("nan")])
    if typ == "float32":
        # single precision annotation (e.g. a B-factor), unknown values as NaN
        return rng.choice([0.0, 0.5, -1.25, 3.0, 100.0, float("nan"), float("nan")])
    if typ == "obj":
        # an annotation of dtype object ("extra annotations of any dtype"): arbitrary Python values per atom
        return rng.choice(["label", "x y", "", 3, -1, 0])
    return rng.random() < 0.5


CAT_TYPES = {"chain_id": "str", "res_id": "int", "ins_code": "str", "res_name": "str", "hetero": "bool", "atom_name": "str",
             "element": "str", "uid": "int", "q": "float", "flag": "bool", "lbl": "str", "b32": "float32", "tag": "obj"}


def gen_coord(rng, shape):
    vals = [rng.choice([0.0, 1.0, -2.5, 10.25, 100.0, rng.randint(-50, 50) / 4.0]) for _ in range(int(np.prod(shape)))]
    return np.array(vals, dtype=np.float32).reshape(shape)


def gen_box(rng, m=None):
    def one():
        a = rng.choice([10.0, 20.0, 35.5])
        return [[a, 0, 0], [0, a + 1, 0], [rng.choice([0.0, 1.5]), 0, a + 2]]
    return one() if m is None else [one() for _ in range(m)]


def gen_bonds(rng, n, k):
    out = {}
    if n < 2:
        return out
    for _ in range(k):
        i, j = rng.sample(range(n), 2)
        out[(min(i, j), max(i, j))] = rng.randrange(10)
    return out


def gen_container(rng, kind, n, m, extras, with_bonds, with_box):
    cats = MANDATORY + list(extras)
    ann = {c: [gen_value(rng, c, CAT_TYPES[c], wide=True) for _ in range(n)] for c in cats}
    if "uid" in ann:
        ann["uid"] = [rng.randrange(1000, 9999) for _ in range(n)]
    if kind == "array":
        coord = gen_coord(rng, (n, 3))
        box = gen_box(rng) if with_box else None
    else:
        coord = gen_coord(rng, (m, n, 3))
        box = gen_box(rng, m) if with_box else None
    bonds = gen_bonds(rng, n, rng.choice([1, 2, 4, 8])) if with_bonds else None
    return M(kind, ann, coord, box, bonds)


def m_to_json(m):
    return {"kind": m.kind, "ann": m.ann, "coord": m.coord.tolist(), "box": None if m.box is None else m.box.tolist(),
            "bonds": None if m.bonds is None else [[i, j, t] for (i, j), t in sorted(m.bonds.items())]}


def m_from_json(d):
    return M(d["kind"], {k: (list(v) if isinstance(v, list) else v) for k, v in d["ann"].items()},
             np.array(d["coord"], dtype=np.float32).reshape(shape_for(d)),
             d["box"], None if d["bonds"] is None else {(i, j): t for i, j, t in d["bonds"]})


def shape_for(d):
    c = np.array(d["coord"], dtype=np.float32)
    if d["kind"] == "atom":
        return (3,)
    if c.size == 0:
        n = len(next(iter(d["ann"].values()))) if d["ann"] else 0
        if d["kind"] == "array":
            return (n, 3)
        m = len(d["coord"])
        return (m, n, 3)
    return c.shape


# ================================================================================================
# model semantics of every operation (used by the generator *and* the executor)
# ================================================================================================

def m_apply(ms, op):
    """Returns (dict reg -> new model for the registers this op (re)defines, value to compare or None).
    Raises Reject(kinds) if the documented outcome is an exception. Returns None to skip (op not applicable)."""
    name = op["op"]
    if name == "new":
        return {op["dst"]: m_from_json(op["data"])}, None
    if name in ("index", "get"):
        src = ms[op["src"]]
        if src is None:
            return None
        out = m_index(src, op["idx"])
        return {op["dst"]: out}, None
    if name == "concat_models":
        # a stack IS an iterable of arrays (one per model): concatenate(stack) joins its models into one array
        src = ms[op["src"]]
        if src is None or src.kind != "stack" or src.m == 0:
            return None
        parts = [model_of(src, k) for k in range(src.m)]
        joined = m_apply(parts + [None], {"op": "concat", "srcs": list(range(src.m)), "dst": src.m})
        return {op["dst"]: joined[0][src.m]}, None
    if name == "concat":
        parts = [ms[r] for r in op["srcs"]]
        if any(p is None or p.kind == "atom" for p in parts):
            return None
        if len({p.kind for p in parts}) != 1:
            raise Reject(("TypeError",))
        if parts[0].kind == "stack" and len({p.m for p in parts}) != 1:
            raise Reject(("IndexError", "ValueError"))
        common = [c for c in parts[0].ann if all(c in p.ann for p in parts)]
        ann = {c: [v for p in parts for v in p.ann[c]] for c in common}
        coord = np.concatenate([p.coord for p in parts], axis=-2)
        box = next((p.box for p in parts if p.box is not None), None)
        bonds = None
        if any(p.bonds is not None for p in parts):
            bonds = {}
            off = 0
            for p in parts:
                for (i, j), t in (p.bonds or {}).items():
                    bonds[(i + off, j + off)] = t
                off += p.n
        return {op["dst"]: M(parts[0].kind, ann, coord, box, bonds)}, None
    if name == "stack_variants":
        src = ms[op["src"]]
        if src is None or src.kind != "array":
            return None
        coords = [np.array(c, dtype=np.float32).reshape(src.n, 3) for c in op["coords"]]
        boxes = op["boxes"]
        if op.get("break_annot") is not None:
            raise Reject(("ValueError",))  # also for arrays without atoms: their annotation categories differ
        box = None
        if all(b is not None for b in boxes):
            box = boxes
        return {op["dst"]: M("stack", {k: list(v) for k, v in src.ann.items()}, np.stack(coords) if coords else None, box, src.bonds)}, None
    if name == "repeat":
        src = ms[op["src"]]
        if src is None or src.kind == "atom":
            return None
        k = op["k"]
        coord = np.array(op["coord"], dtype=np.float32)
        if src.kind == "array":
            coord = coord.reshape(k, src.n, 3).reshape(k * src.n, 3)
        else:
            # given as (k, m, n, 3): coord[r] holds the coordinates of the r-th repeat for every model, so in the
            # list-of-atoms model the result is the concatenation of k copies, copy r carrying coord[r]
            coord = coord.reshape(k, src.m, src.n, 3)
            coord = np.concatenate([coord[r] for r in range(k)], axis=-2) if k else coord.reshape(src.m, 0, 3)
        ann = {c: list(v) * k for c, v in src.ann.items()}
        bonds = None
        if src.bonds is not None:
            bonds = {}
            for r in range(k):
                for (i, j), t in src.bonds.items():
                    bonds[(i + r * src.n, j + r * src.n)] = t
        return {op["dst"]: M(src.kind, ann, coord, src.box, bonds)}, None
    if name == "from_template":
        src = ms[op["src"]]
        if src is None or src.kind == "atom":
            return None
        coord = np.array(op["coord"], dtype=np.float32).reshape(op["m"], src.n, 3)
        return {op["dst"]: M("stack", {c: list(v) for c, v in src.ann.items()}, coord, op["box"], src.bonds)}, None
    if name == "rebuild":
        src = ms[op["src"]]
        if src is not None and "tag" in src.ann:
            return None  # array() infers one dtype per category from the first atom: not defined for mixed object values
        if src is None or src.kind != "array" or src.n == 0:
            return None
        if "lbl" in src.ann and any(len(v) < 3 for v in src.ann["lbl"]):
            # array() sizes a string annotation after the longest present value; later, longer values would be
            # truncated by numpy (assumption 1): keep the width of 'lbl' at 3 by not rebuilding here
            return None
        return {op["dst"]: M("array", {c: list(v) for c, v in src.ann.items()}, src.coord, None, None)}, None
    if name == "copy":
        src = ms[op["src"]]
        if src is None:
            return None
        return {op["dst"]: src.copy()}, None
    if name == "del":
        m = ms[op["r"]]
        if m is None or m.kind == "atom":
            return None
        L = m.n if m.kind == "array" else m.m
        kind, sel = select(L, {"t": "int", "v": op["i"]})
        out = m.copy()
        if m.kind == "array":
            keep = [x for x in range(m.n) if x != sel]
            out = sub_atoms(m, keep)
        else:
            keep = [x for x in range(m.m) if x != sel]
            out.coord = m.coord[keep] if keep else m.coord[:0]
            if m.box is not None:
                out.box = m.box[keep] if keep else m.box[:0]
        return {op["r"]: out}, None
    if name == "set_atom":
        m = ms[op["r"]]
        if m is None or m.kind != "array":
            return None
        atom = op["atom"]
        idx = op["idx"]
        missing = any(c not in atom["ann"] for c in m.ann)
        if idx["t"] not in ("int", "arr", "mask"):
            raise Reject(("TypeError",))
        try:
            kind, sel = select(m.n, idx)
        except Reject:
            # which of two documented refusals comes first is not specified
            raise Reject(("IndexError", "KeyError") if missing else ("IndexError",))
        if missing:
            raise Reject(("KeyError",))
        if kind == "int":
            sel = [sel]
        out = m.copy()
        for i in sel:
            for c in out.ann:
                out.ann[c][i] = atom["ann"][c]
            out.coord[i] = np.array(atom["coord"], dtype=np.float32)
        return {op["r"]: out}, None
    if name == "set_model":
        m = ms[op["r"]]
        if m is None or m.kind != "stack":
            return None
        if m.m == 0:
            return None
        if m.box is not None and op["box"] is None:
            return None  # assigning an array without box into a stack with boxes is not a documented operation
        broken = op.get("break_annot") and m.n > 0
        try:
            kind, sel = select(m.m, {"t": "int", "v": op["i"]})
        except Reject:
            raise Reject(("IndexError", "ValueError") if broken else ("IndexError",))
        if broken:
            raise Reject(("ValueError",))
        out = m.copy()
        out.coord[sel] = np.array(op["coord"], dtype=np.float32).reshape(m.n, 3)
        if out.box is not None:
            out.box[sel] = np.array(op["box"], dtype=np.float32)
        return {op["r"]: out}, None
    if name == "annot":
        m = ms[op["r"]]
        if m is None or m.kind == "atom":
            return None
        out = m.copy()
        what, cat = op["what"], op["cat"]
        if what == "add":
            if cat not in out.ann:
                out.ann[cat] = [{"int": 0, "float": 0.0, "float32": 0.0, "bool": False, "str": "", "obj": 0}[CAT_TYPES[cat]]] * m.n
            elif op.get("dt") == "incompatible":
                raise Reject(("ValueError",))
        elif what in ("set", "attr"):
            vals = op["values"]
            if what == "attr" and cat not in out.ann:
                return None  # would create a plain Python attribute, not an annotation
            if len(vals) != m.n:
                raise Reject(("IndexError", "ValueError"))
            out.ann[cat] = list(vals)
        elif what == "del":
            out.ann.pop(cat, None)
        return {op["r"]: out}, None
    if name == "assign":
        m = ms[op["r"]]
        if m is None or m.kind == "atom":
            return None
        out = m.copy()
        what = op["what"]
        if what == "coord":
            v = np.array(op["value"], dtype=np.float32)
            want = m.coord.shape
            if op.get("bad") == "rank":
                raise Reject(("ValueError", "TypeError"))
            if op.get("bad") == "length":
                raise Reject(("ValueError",))
            out.coord = v.reshape(want)
        elif what == "box":
            if op["value"] is None:
                out.box = None
            else:
                if op.get("bad") == "rank":
                    raise Reject(("ValueError", "TypeError"))
                out.box = np.array(op["value"], dtype=np.float32)
                if out.box.size == 0:
                    out.box = out.box.reshape(0, 3, 3)
        elif what == "bonds":
            if op["value"] is None:
                out.bonds = None
            else:
                if op.get("bad") == "count":
                    raise Reject(("ValueError",))
                out.bonds = {(i, j): t for i, j, t in op["value"] if i < m.n and j < m.n}
        return {op["r"]: out}, None
    if name == "poke":
        m = ms[op["r"]]
        if m is not None and m.kind == "atom":
            out = m.copy()
            if op["what"] == "annot":
                out.ann[op["cat"]] = op["value"]
                return {op["r"]: out}, None
            if op["what"] != "coord":
                return None
            out.coord[op["i"] % 3] = np.float32(op["value"])
            return {op["r"]: out}, None
        if m is None or m.n == 0:
            return None
        out = m.copy()
        what = op["what"]
        i = op["i"] % m.n
        if what == "coord":
            if m.kind == "array":
                out.coord[i] = np.float32(op["value"])
            else:
                if m.m == 0:
                    return None
                out.coord[op["k"] % m.m, i] = np.float32(op["value"])
        elif what == "annot":
            if op["cat"] not in m.ann:
                return None
            out.ann[op["cat"]][i] = op["value"]
        elif what == "box":
            if m.box is None or (m.kind == "stack" and m.m == 0):
                return None
            if m.kind == "array":
                out.box[0, 0] = np.float32(op["value"])
            else:
                out.box[op["k"] % m.m, 0, 0] = np.float32(op["value"])
        elif what == "bond_add":
            if m.bonds is None or m.n < 2:
                return None
            j = op["j"] % m.n
            if i == j:
                return None
            out.bonds[(min(i, j), max(i, j))] = op["t"]
        elif what == "bond_remove":
            if not m.bonds:
                return None
            (a, b) = sorted(m.bonds)[op["i"] % len(m.bonds)]
            del out.bonds[(a, b)]
            op = dict(op)
        return {op["r"]: out}, None
    if name == "read":
        m = ms[op["r"]]
        if m is None or m.kind == "atom":
            return None
        what = op["what"]
        if what == "get_atom":
            if m.kind != "array":
                return None
            kind, sel = select(m.n, {"t": "int", "v": op["i"]})
            return {}, ("atom", atom_of(m, sel))
        if what == "get_array":
            if m.kind != "stack":
                return None
            kind, sel = select(m.m, {"t": "int", "v": op["i"]})
            return {}, ("array", model_of(m, sel))
        if what == "iter":
            if m.kind == "array":
                return {}, ("atoms", [atom_of(m, i) for i in range(m.n)])
            return {}, ("arrays", [model_of(m, k) for k in range(m.m)])
        if what == "len":
            return {}, ("len", m.n if m.kind == "array" else m.m)
        if what == "shape":
            return {}, ("shape", (m.n,) if m.kind == "array" else (m.m, m.n))
    raise AssertionError(name)


# ================================================================================================
# generation (runs the model only)
# ================================================================================================

def gen_1d(rng, L, allow_dup, faulty):
    r = rng.random()
    if r < 0.2:
        if faulty and rng.random() < 0.3:
            return {"t": "int", "v": rng.choice([L, L + 2, -L - 1, -L - 3])}
        if L == 0:
            return {"t": "slice", "v": [None, None, None]}
        return {"t": "int", "v": rng.randint(-L, L - 1)}
    if r < 0.45:
        return {"t": "slice", "v": [rng.choice([None, 0, 1, -1, -2, L // 2, rng.randint(-L - 2, L + 2)]),
                                    rng.choice([None, L, -1, 0, L // 2, rng.randint(-L - 2, L + 2)]),
                                    rng.choice([None, 1, 2, 3, -1, -2])]}
    if r < 0.50:
        # a range object: numpy takes it like the index array of its elements (negative elements count from the end)
        start = rng.randint(-L, L - 1) if L else 0
        stop = rng.randint(-L - 1, L) if L else 0
        step = rng.choice([1, 1, 2, -1, -1, -2])
        if faulty and rng.random() < 0.15:
            stop = L + 3
            step = 1
        return {"t": "range", "v": [start, stop, step]}
    if r < 0.65:
        v = [rng.random() < 0.6 for _ in range(L)]
        if faulty and rng.random() < 0.15:
            v = v + [True]
        return {"t": "mask", "v": v}
    if True:
        k = rng.randint(0, L)
        v = rng.sample(range(L), k) if L else []
        v = [x - L if rng.random() < 0.35 else x for x in v]
        if allow_dup and v and rng.random() < 0.3:
            v += [rng.choice(v) for _ in range(rng.randint(1, 2))]
        if faulty and rng.random() < 0.2:
            v.insert(rng.randint(0, len(v)), rng.choice([L, -L - 1, L + 5]))
        return {"t": "arr", "v": v}


def spell(rng, spec):
    """Randomly choose another spelling of the same one-axis index (index operations only)."""
    for sub in (spec, spec.get("a"), spec.get("b")):
        if isinstance(sub, dict) and rng.random() < 0.25:
            if sub["t"] == "int":
                # a numpy integer scalar, or (every third value; derived from the value, not drawn) a zero-dimensional
                # integer array, which numpy takes as an integer index as well
                sub["as"] = "0d" if sub["v"] % 3 == 0 else "npint"
            elif sub["t"] == "mask":
                sub["as"] = rng.choice(["list", "list", "ro"])
            elif sub["t"] == "arr":
                sub["as"] = rng.choice(["list", "int32", "ro"])
    return spec


def gen_index(rng, m, faulty):
    return spell(rng, _gen_index(rng, m, faulty))


def _gen_index(rng, m, faulty):
    allow_dup = m.bonds is None
    if m.kind == "array":
        if rng.random() < 0.08:
            return {"t": "ell2", "b": gen_1d(rng, m.n, allow_dup, faulty)}
        if faulty and rng.random() < 0.05:
            return {"t": "2d", "a": {"t": "int", "v": 0}, "b": {"t": "int", "v": 0}}
        return gen_1d(rng, m.n, allow_dup, faulty)
    r = rng.random()
    if r < 0.04:
        # the bare ellipsis is generated for stacks only; `array[...]` and `stack[i, ...]` raise IndexError in
        # numpy's own double-ellipsis check and the documentation only describes `x[..., index]`
        return {"t": "ell"}
    if r < 0.35:
        return gen_1d(rng, m.m, True, faulty)
    if r < 0.45:
        return {"t": "ell2", "b": gen_1d(rng, m.n, allow_dup, faulty)}
    return {"t": "2d", "a": gen_1d(rng, m.m, True, faulty), "b": gen_1d(rng, m.n, allow_dup, faulty)}


def generate(rng):
    faulty = rng.random() < 0.3
    nreg = rng.randint(2, 6)
    cfg = {"nreg": nreg, "faulty": faulty}
    ms = [None] * nreg
    ops = []
    nops = rng.randint(3, 40)
    extras_pool = list(EXTRA)

    def live(kinds=("array", "stack")):
        return [i for i, m in enumerate(ms) if m is not None and m.kind in kinds]

    guard = 0
    while len(ops) < nops and guard < 400:
        guard += 1
        lv = live()
        r = rng.random()
        op = None
        atoms_live = live(("atom",))
        if atoms_live and rng.random() < 0.08:
            # single atoms: copy() must be independent as well; in-place coordinate edits through one holder
            a = rng.choice(atoms_live)
            ra = rng.random()
            if ra < 0.45:
                op = {"op": "copy", "src": a, "dst": rng.randrange(nreg)}
            elif ra < 0.7:
                # documented use: atom.atom_name = "CA" (an existing or a new annotation of this one atom)
                cat = rng.choice(sorted(ms[a].ann) + ["uid", "lbl"])
                op = {"op": "poke", "r": a, "what": "annot", "cat": cat, "i": 0, "k": 0, "j": 0, "t": 0,
                      "value": gen_value(rng, cat, CAT_TYPES[cat])}
            else:
                op = {"op": "poke", "r": a, "what": "coord", "i": rng.randrange(3), "k": 0, "j": 0, "t": 0, "value": rng.choice([7.5, -3.25, 42.0])}
            res = m_apply(ms, op)
            if res is not None:
                ops.append(op)
                for reg, mm in res[0].items():
                    ms[reg] = mm
            continue
        if not lv or r < 0.10:
            kind = rng.choice(["array", "array", "stack"])
            n = rng.choice([0, 1, 2, 3, 5, 8, 10, rng.randint(0, 10)])
            m = rng.choice([0, 1, 2, 3, 4]) if kind == "stack" else None
            extras = rng.sample(extras_pool, rng.randint(0, 4))
            data = gen_container(rng, kind, n, m, extras, rng.random() < 0.6, rng.random() < 0.5)
            op = {"op": "new", "dst": rng.randrange(nreg), "data": m_to_json(data), "via": rng.choice(["direct", "atoms"]) if "tag" not in extras else "direct",
                  "as": rng.choice(["list", "list", "tuple", "generator", "iter", "values"])}
        else:
            a = rng.choice(lv)
            m = ms[a]
            dst = rng.randrange(nreg)
            if r < 0.40:
                op = {"op": "index", "src": a, "dst": dst, "idx": gen_index(rng, m, faulty)}
            elif r < 0.46:
                same = [i for i in lv if ms[i].kind == m.kind and (m.kind == "array" or ms[i].m == m.m)]
                srcs = [a] + [rng.choice(same) for _ in range(rng.choice([0, 1, 1, 2]))]
                if faulty and rng.random() < 0.2:
                    srcs.append(rng.choice(lv))
                op = {"op": "concat", "srcs": srcs, "dst": dst, "plus": len(srcs) == 2 and rng.random() < 0.5,
                      "as": rng.choice(["list", "list", "tuple", "generator", "iter", "values"])}
            elif r < 0.51 and m.kind == "stack" and m.m >= 1 and rng.random() < 0.5:
                op = {"op": "concat_models", "src": a, "dst": dst}
            elif r < 0.51:
                if m.kind != "array":
                    continue
                k = rng.randint(1, 3)
                with_box = m.box is not None and rng.random() < 0.8
                op = {"op": "stack_variants", "src": a, "dst": dst, "coords": [gen_coord(rng, (m.n, 3)).tolist() for _ in range(k)],
                      "boxes": [gen_box(rng) if (with_box or rng.random() < 0.2) else None for _ in range(k)],
                      "break_annot": (rng.randrange(k) if (faulty and k > 1 and rng.random() < 0.3) else None),
                      "break_how": rng.choice(["value", "add_cat", "del_cat"]),
                      "as": rng.choice(["list", "list", "tuple", "generator", "iter", "values"])}
            elif r < 0.55:
                k = rng.choice([0, 1, 1, 2, 2, 3])  # the first dimension of coord is the number of repeats; zero is a length too
                shape = (k, m.n, 3) if m.kind == "array" else (k, m.m, m.n, 3)
                op = {"op": "repeat", "src": a, "dst": dst, "k": k, "coord": gen_coord(rng, shape).tolist()}
            elif r < 0.59:
                mm = rng.randint(0, 3)
                op = {"op": "from_template", "src": a, "dst": dst, "m": mm, "coord": gen_coord(rng, (mm, m.n, 3)).tolist(),
                      "box": gen_box(rng, mm) if rng.random() < 0.5 else None}
            elif r < 0.61:
                op = {"op": "rebuild", "src": a, "dst": dst, "as": rng.choice(["list", "list", "tuple", "generator", "iter", "values"])}
            elif r < 0.68:
                op = {"op": "copy", "src": a, "dst": dst}
            elif r < 0.74:
                L = m.n if m.kind == "array" else m.m
                if L == 0 and not faulty:
                    continue
                i = rng.randint(-L, L - 1) if L and not (faulty and rng.random() < 0.3) else rng.choice([L, -L - 1])
                op = {"op": "del", "r": a, "i": i}
            elif r < 0.79:
                if m.kind != "array":
                    continue
                atom = {"ann": {c: gen_value(rng, c, CAT_TYPES[c]) for c in m.ann}, "coord": gen_coord(rng, (3,)).tolist()}
                if faulty and rng.random() < 0.25 and len(atom["ann"]) > 7:
                    atom["ann"].pop([c for c in atom["ann"] if c not in MANDATORY][0])
                if rng.random() < 0.3:
                    atom["ann"]["extra_only_in_atom"] = 1
                idx = gen_1d(rng, m.n, True, faulty)
                if idx["t"] in ("slice", "ell") and not faulty:
                    idx = {"t": "int", "v": rng.randint(-m.n, m.n - 1)} if m.n else {"t": "arr", "v": []}
                op = {"op": "set_atom", "r": a, "idx": idx, "atom": atom}
            elif r < 0.83:
                if m.kind != "stack" or m.m == 0:
                    continue
                i = rng.randint(-m.m, m.m - 1) if not (faulty and rng.random() < 0.3) else rng.choice([m.m, -m.m - 1])
                op = {"op": "set_model", "r": a, "i": i, "coord": gen_coord(rng, (m.n, 3)).tolist(),
                      "box": gen_box(rng) if (m.box is not None or rng.random() < 0.3) else None,
                      "break_annot": faulty and m.n > 0 and rng.random() < 0.25, "break_how": rng.choice(["value", "add_cat", "del_cat"])}
            elif r < 0.89:
                what = rng.choice(["add", "set", "attr", "del", "set"])
                cat = rng.choice(list(EXTRA) + (list(m.ann) if what != "del" else [c for c in m.ann if c not in MANDATORY] or ["uid"]))
                op = {"op": "annot", "r": a, "what": what, "cat": cat}
                if what == "add" and cat in m.ann and rng.random() < 0.6:
                    # add_annotation() on an existing category: documented to choose a dtype that is also able to
                    # represent the old values (wider: converted; narrower: kept; neither: ValueError)
                    op["dt"] = rng.choice(["wider", "wider", "narrower", "incompatible"])
                    if op["dt"] == "incompatible" and CAT_TYPES[cat] in ("str", "obj"):
                        op["dt"] = "wider"  # every dtype can be cast to object / wide strings: nothing is incompatible
                if what in ("set", "attr"):
                    nn = m.n if not (faulty and rng.random() < 0.25) else m.n + rng.choice([1, 2])
                    op["values"] = [gen_value(rng, cat, CAT_TYPES[cat], wide=True) for _ in range(nn)]
            elif r < 0.93:
                what = rng.choice(["coord", "box", "bonds"])
                op = {"op": "assign", "r": a, "what": what}
                if what == "coord":
                    op["value"] = gen_coord(rng, m.coord.shape).tolist()
                    if faulty and rng.random() < 0.3:
                        op["bad"] = rng.choice(["rank", "length"])
                elif what == "box":
                    op["value"] = None if rng.random() < 0.3 else (gen_box(rng) if m.kind == "array" else gen_box(rng, m.m))
                    if faulty and op["value"] is not None and rng.random() < 0.3:
                        op["bad"] = "rank"
                else:
                    op["value"] = None if rng.random() < 0.3 else [[i, j, t] for (i, j), t in sorted(gen_bonds(rng, m.n, 3).items())]
                    if faulty and op["value"] is not None and rng.random() < 0.3:
                        op["bad"] = "count"
            elif r < 0.97:
                what = rng.choice(["coord", "annot", "box", "bond_add", "bond_remove"])
                op = {"op": "poke", "r": a, "what": what, "i": rng.randrange(100), "k": rng.randrange(100), "j": rng.randrange(100),
                      "t": rng.randrange(10), "value": rng.choice([7.5, -3.25, 42.0])}
                if what == "annot":
                    cat = rng.choice(list(m.ann))
                    op["cat"] = cat
                    op["value"] = gen_value(rng, cat, CAT_TYPES[cat])
            else:
                L = m.n if m.kind == "array" else m.m
                op = {"op": "read", "r": a, "what": rng.choice(["get_atom", "get_array", "iter", "len", "shape"]),
                      "i": rng.randint(-L, L - 1) if L else 0}
        try:
            res = m_apply(ms, op)
        except Reject:
            ops.append(op)
            continue
        if res is None:
            continue
        ops.append(op)
        for reg, mm in res[0].items():
            ms[reg] = mm
    return {"cfg": cfg, "ops": ops}


# ================================================================================================
# execution
# ================================================================================================

def build(m):
    """Real object from a model through public constructors."""
    import biotite.structure as struc

    if m.kind == "atom":
        return struc.Atom(np.array(m.coord, dtype=np.float32), **m.ann)
    if m.kind == "array":
        obj = struc.AtomArray(m.n)
    else:
        obj = struc.AtomArrayStack(m.m, m.n)
    for c, v in m.ann.items():
        obj.set_annotation(c, np_annot(c, v))
    obj.coord = m.coord.copy()
    if m.box is not None:
        obj.box = m.box.copy()
    if m.bonds is not None:
        obj.bonds = build_bonds(m.n, m.bonds)
    return obj


def np_annot(cat, values):
    t = CAT_TYPES.get(cat, "int")
    if t == "str":
        width = {"chain_id": 4, "ins_code": 1, "res_name": 5, "atom_name": 6, "element": 2, "lbl": 3}[cat]
        width = max([width] + [len(v) for v in values])
        return np.array(values, dtype=f"U{width}")
    if t == "obj":
        a = np.empty(len(values), dtype=object)
        a[:] = list(values)
        return a
    return np.array(values, dtype={"int": int, "float": float, "float32": np.float32, "bool": bool}[t])


def natural_annot(cat, values, exists):
    """Array as a user would pass it: for an EXISTING category numpy's natural dtype (possibly narrower than the
    annotation's: '<U1' for one-letter chain ids, integers for a float annotation); set_annotation documents that it
    keeps a dtype able to represent old and new values. New categories get the full-width dtype (assumption 1)."""
    if not exists or len(values) == 0:
        return np_annot(cat, values)
    t = CAT_TYPES.get(cat, "int")
    if t == "obj":
        return np_annot(cat, values)  # numpy would guess a string dtype for mixed values; an object array is passed
    if t in ("float", "float32") and all(float(v).is_integer() for v in values):
        return np.array([int(v) for v in values])
    return np.array(values)


def build_bonds(n, bonds):
    from biotite.structure import BondList

    if not bonds:
        return BondList(n)
    return BondList(n, np.array([[i, j, t] for (i, j), t in sorted(bonds.items())], dtype=np.int64))


def observe(obj):
    """Model of a real object (used for alias-group resync and after partially applied rejected assignments)."""
    import biotite.structure as struc

    if isinstance(obj, struc.Atom):
        return M("atom", {k: pyval(v) for k, v in obj._annot.items()}, np.array(obj.coord))
    kind = "array" if isinstance(obj, struc.AtomArray) else "stack"
    ann = {c: [pyval(x) for x in obj.get_annotation(c).tolist()] for c in obj.get_annotation_categories()}
    bonds = None
    if obj.bonds is not None:
        bonds = {(int(a), int(b)): int(t) for a, b, t in obj.bonds.as_array().tolist()}
    return M(kind, ann, np.array(obj.coord), None if obj.box is None else np.array(obj.box), bonds)


def pyval(v):
    if isinstance(v, (np.generic,)):
        return v.item()
    return v


def same_val(a, b):
    if isinstance(a, float) and isinstance(b, float) and a != a and b != b:
        return True  # NaN is a value like any other here ("unknown")
    return a == b


def same_vals(a, b):
    return len(a) == len(b) and all(same_val(x, y) for x, y in zip(a, b))


def same_ann(a, b):
    """dict category -> value (atom) or list of values (array), NaN-aware"""
    if sorted(a) != sorted(b):
        return False
    for k in a:
        x, y = a[k], b[k]
        if isinstance(x, list) != isinstance(y, list):
            return False
        if isinstance(x, list):
            if not same_vals(x, y):
                return False
        elif not same_val(x, y):
            return False
    return True


def same_coord(a, b):
    a = np.asarray(a)
    b = np.asarray(b)
    return a.shape == b.shape and np.array_equal(a, b, equal_nan=True)


class Sim:
    def __init__(self, spec, keep_log):
        self.spec = spec
        self.res = RunResult()
        self.log = EventLog(spec.get("seed", "replay"))
        self.log.keep = keep_log
        n = spec["cfg"]["nreg"]
        self.regs = [None] * n
        self.ms = [None] * n
        self.group = list(range(n))  # alias group id per register
        # a finer group for the coordinate and annotation buffers alone: deleting an atom gives the container arrays of
        # its own (np.delete copies), while its box is still the one it shared before
        self.cgroup = list(range(n))
        self.next_group = n
        self.origin = [None] * n  # 'copy' | 'derived' | 'fresh'
        self.step = -1
        self.nontrivial = False

    def fail(self, sig, **detail):
        raise Violation(sig, detail, self.step)

    # ---- coherence + model agreement of one register ------------------------------------------------------
    def check(self, r, after):
        import biotite.structure as struc

        obj, m = self.regs[r], self.ms[r]
        if m is None:
            return
        where = {"reg": r, "after": after, "kind": m.kind}
        if m.kind == "atom":
            if not isinstance(obj, struc.Atom):
                self.fail("type:not-an-atom", got=type(obj).__name__, **where)
            got = observe(obj)
            if not same_ann(got.ann, m.ann):
                self.fail("model:atom-annotations-differ", got=got.ann, expected=m.ann, **where)
            if not same_coord(obj.coord, m.coord):
                self.fail("model:atom-coord-differs", got=np.asarray(obj.coord).tolist(), expected=m.coord.tolist(), **where)
            return
        cls = struc.AtomArray if m.kind == "array" else struc.AtomArrayStack
        if type(obj) is not cls:
            self.fail("type:wrong-container-type", got=type(obj).__name__, expected=cls.__name__, **where)
        # -- structural coherence (what the statement's second sentence promises) --
        n = obj.array_length()
        st, cats = call(obj.get_annotation_categories)
        for c in cats:
            arr = obj.get_annotation(c)
            if len(arr) != n:
                self.fail("coherence:annotation-length", cat=c, got=len(arr), n=n, **where)
        coord = obj.coord
        if coord is None:
            self.fail("coherence:no-coord", **where)
        exp_shape = (n, 3) if m.kind == "array" else (coord.shape[0], n, 3)
        if coord.shape != exp_shape or coord.ndim != (2 if m.kind == "array" else 3):
            self.fail("coherence:coord-shape", got=list(coord.shape), n=n, **where)
        if obj.box is not None:
            bs = obj.box.shape
            exp = (3, 3) if m.kind == "array" else (coord.shape[0], 3, 3)
            if bs != exp:
                self.fail("coherence:box-shape", got=list(bs), expected=list(exp), **where)
        if obj.bonds is not None and obj.bonds.get_atom_count() != n:
            self.fail("coherence:bond-atom-count", got=obj.bonds.get_atom_count(), n=n, **where)
        if len(obj) != (n if m.kind == "array" else coord.shape[0]):
            self.fail("coherence:len", got=len(obj), **where)
        # -- agreement with the model --
        if n != m.n:
            self.fail("model:length-differs", got=n, expected=m.n, **where)
        if m.kind == "stack" and coord.shape[0] != m.m:
            self.fail("model:depth-differs", got=coord.shape[0], expected=m.m, **where)
        if sorted(cats) != sorted(m.ann):
            self.fail("model:annotation-categories-differ", got=sorted(cats), expected=sorted(m.ann), **where)
        for c, vals in m.ann.items():
            got = [pyval(x) for x in obj.get_annotation(c).tolist()]
            if not same_vals(got, vals):
                self.fail("model:annotation-values-differ", cat=c, got=got, expected=vals, **where)
        if not same_coord(coord, m.coord):
            self.fail("model:coord-differs", got=np.asarray(coord).tolist(), expected=m.coord.tolist(), **where)
        if (obj.box is None) != (m.box is None):
            self.fail("model:box-presence-differs", got=obj.box is not None, expected=m.box is not None, **where)
        if m.box is not None and not same_coord(obj.box, m.box):
            self.fail("model:box-differs", got=np.asarray(obj.box).tolist(), expected=m.box.tolist(), **where)
        if (obj.bonds is None) != (m.bonds is None):
            self.fail("model:bonds-presence-differs", got=obj.bonds is not None, expected=m.bonds is not None, **where)
        if m.bonds is not None:
            got = {(int(a), int(b)): int(t) for a, b, t in obj.bonds.as_array().tolist()}
            if got != m.bonds:
                self.fail("model:bonds-differ", got=sorted(got.items()), expected=sorted(m.bonds.items()), **where)
        # -- biotite's own == against the container rebuilt from the model --
        if not np.isnan(m.coord).any():
            ref = build(m)
            st, eq = call(lambda: obj == ref)
            self.res.stats["probe:eq-checked"] += 1
            if st == "exc" or eq is not True:
                self.fail("model:eq-with-rebuilt-container", got=eq if st == "ok" else exc_name(eq), **where)
            if self.step % 5 == 0 and m.coord.size:
                m2 = m.copy()
                m2.coord.reshape(-1)[0] += 1.0
                st, eq = call(lambda: obj == build(m2))
                if st == "exc" or eq is not False:
                    self.fail("model:eq-true-for-different-container", got=eq if st == "ok" else exc_name(eq), **where)
                if m.n >= 1:
                    # the same container with its last atom once more (another length) must be unequal as well
                    m3 = sub_atoms(M(m.kind, m.ann, m.coord, m.box, None), list(range(m.n)) + [m.n - 1])
                    st, eq = call(lambda: obj == build(m3))
                    if st == "exc" or eq is not False:
                        self.fail("model:eq-true-for-different-container", what="one more atom", got=eq if st == "ok" else exc_name(eq), **where)
            if self.step % 5 == 2:
                # the documented parameter of equal_annotations(): NaN values count as equal only if asked for
                has_nan = any(isinstance(v, float) and v != v for vals in m.ann.values() for v in vals)
                for flag, want in ((True, True), (False, not has_nan)):
                    st, eq = call(lambda: obj.equal_annotations(ref, equal_nan=flag))
                    if st == "exc" or bool(eq) is not want:
                        self.fail("model:equal_annotations-equal_nan", equal_nan=flag, has_nan=has_nan, got=eq if st == "ok" else exc_name(eq), **where)
            if self.step % 5 == 1:
                # a container that differs in exactly one other respect must be unequal too, whichever side it stands
                # on: box present / absent, one box entry, one annotation value, bonds present / absent, one bond
                variants = []
                mb = m.copy()
                if m.box is None:
                    mb.box = np.eye(3, dtype=np.float32) * 10 if m.kind == "array" else np.stack([np.eye(3, dtype=np.float32) * 10] * m.m) if m.m else None
                    if mb.box is not None:
                        variants.append(("box present instead of absent", mb))
                else:
                    mb.box = None
                    variants.append(("box absent instead of present", mb))
                    if m.box.size:
                        mc = m.copy()
                        mc.box.reshape(-1)[0] += 1.0
                        variants.append(("one box entry", mc))
                if m.n >= 1:
                    ma = m.copy()
                    ma.ann["res_id"] = list(ma.ann["res_id"])
                    ma.ann["res_id"][-1] = ma.ann["res_id"][-1] + 1
                    variants.append(("one annotation value", ma))
                if m.kind == "stack":
                    # another number of models: the last model once more, the last model dropped, no model at all
                    md = m.copy()
                    md.coord = np.concatenate([m.coord, m.coord[-1:]]) if m.m else np.zeros((1, m.n, 3), dtype=np.float32)
                    if m.box is not None:
                        md.box = np.concatenate([m.box, m.box[-1:]]) if m.m else np.stack([np.eye(3, dtype=np.float32)])
                    variants.append(("one more model", md))
                    if m.m >= 1:
                        me = m.copy()
                        me.coord = m.coord[:-1]
                        if m.box is not None:
                            me.box = m.box[:-1]
                        variants.append(("one model fewer", me))
                if m.coord.size:
                    # the smallest difference single precision can express (equality is exact, not "close")
                    mt = m.copy()
                    flat = mt.coord.reshape(-1)
                    flat[-1] = np.nextafter(flat[-1], np.float32(np.inf), dtype=np.float32)
                    variants.append(("one coordinate by one unit in the last place", mt))
                mx = m.copy()
                mx.ann["uid2"] = [0] * m.n
                variants.append(("one more annotation category", mx))
                opt = [c for c in m.ann if c not in MANDATORY]
                if opt:
                    my = m.copy()
                    del my.ann[opt[0]]
                    variants.append(("one annotation category fewer", my))
                mo = m.copy()
                if m.bonds is None:
                    mo.bonds = {}
                    variants.append(("empty bond list instead of none", mo))
                else:
                    mo.bonds = None
                    variants.append(("no bond list instead of one", mo))
                    if m.n >= 2 and (0, m.n - 1) not in m.bonds:
                        mp = m.copy()
                        mp.bonds[(0, m.n - 1)] = 1
                        variants.append(("one more bond", mp))
                for what, mv in variants:
                    other = build(mv)
                    for side, fn in (("left", lambda: obj == other), ("right", lambda: other == obj)):
                        st, eq = call(fn)
                        if st == "exc" or eq is not False:
                            self.fail("model:eq-true-for-different-container", what=what, checked_object_on=side,
                                      got=eq if st == "ok" else exc_name(eq), **where)
                    st, ne = call(lambda: obj != other)
                    if st == "exc" or ne is not True:
                        self.fail("model:ne-false-for-different-container", what=what, got=ne if st == "ok" else exc_name(ne), **where)
                self.res.stats["probe:eq-negative-variants"] += 1
        if n == 0 or (m.kind == "stack" and m.m == 0):
            self.res.stats["probe:empty-container"] += 1

    def check_all(self, after):
        for r in range(len(self.regs)):
            self.check(r, after)

    # ---- real execution of one op ------------------------------------------------------------------------------------
    def real(self, op):
        """Returns a thunk -> dict reg -> new object (registers (re)defined), plus value."""
        import biotite.structure as struc

        R = self.regs
        name = op["op"]
        if name == "new":
            m = m_from_json(op["data"])

            def f():
                if op["via"] == "atoms" and m.kind == "array" and m.n > 0:
                    atoms = [struc.Atom(m.coord[i], **{c: v[i] for c, v in m.ann.items()}) for i in range(m.n)]
                    obj = struc.array(as_iterable(atoms, op.get("as")))
                    if m.box is not None:
                        obj.box = m.box.copy()
                    if m.bonds is not None:
                        obj.bonds = build_bonds(m.n, m.bonds)
                    return {op["dst"]: obj}, None
                return {op["dst"]: build(m)}, None
            return f
        if name == "index":
            idx = op["idx"]

            def f():
                src = R[op["src"]]
                if idx["t"] == "2d":
                    return {op["dst"]: src[np_index(idx["a"]), np_index(idx["b"])]}, None
                if idx["t"] == "ell2":
                    return {op["dst"]: src[..., np_index(idx["b"])]}, None
                return {op["dst"]: src[np_index(idx)]}, None
            return f
        if name == "concat":
            def f():
                parts = [R[r] for r in op["srcs"]]
                if op["plus"]:
                    return {op["dst"]: parts[0] + parts[1]}, None
                # documented argument: any iterable of arrays/stacks, not only a list
                how = op.get("as", "list")
                return {op["dst"]: struc.concatenate(as_iterable(parts, how))}, None
            return f
        if name == "concat_models":
            return lambda: ({op["dst"]: struc.concatenate(R[op["src"]])}, None)
        if name == "stack_variants":
            def f():
                src = R[op["src"]]
                arrays = []
                for k, c in enumerate(op["coords"]):
                    a = src.copy()
                    a.coord = np.array(c, dtype=np.float32).reshape(src.array_length(), 3)
                    a.box = None if op["boxes"][k] is None else np.array(op["boxes"][k], dtype=np.float32)
                    if op.get("break_annot") == k:
                        break_annotations(a, op.get("break_how"))
                    arrays.append(a)
                return {op["dst"]: struc.stack(as_iterable(arrays, op.get("as")))}, None
            return f
        if name == "repeat":
            return lambda: ({op["dst"]: struc.repeat(R[op["src"]], np.array(op["coord"], dtype=np.float32).reshape(
                (op["k"],) + tuple(R[op["src"]].coord.shape)))}, None)
        if name == "from_template":
            return lambda: ({op["dst"]: struc.from_template(
                R[op["src"]], np.array(op["coord"], dtype=np.float32).reshape(op["m"], R[op["src"]].array_length(), 3),
                None if op["box"] is None else np.array(op["box"], dtype=np.float32).reshape(op["m"], 3, 3))}, None)
        if name == "rebuild":
            return lambda: ({op["dst"]: struc.array(as_iterable(R[op["src"]], op.get("as")))}, None)
        if name == "copy":
            return lambda: ({op["dst"]: R[op["src"]].copy()}, None)
        if name == "del":
            def f():
                # the index as a Python int or (every third step) a numpy integer
                del R[op["r"]][np.int64(op["i"]) if self.step % 3 == 0 else op["i"]]
                return {}, None
            return f
        if name == "set_atom":
            def f():
                atom = struc.Atom(np.array(op["atom"]["coord"], dtype=np.float32), **op["atom"]["ann"])
                idx = op["idx"]
                R[op["r"]][np_index(idx)] = atom
                return {}, None
            return f
        if name == "set_model":
            def f():
                stk = R[op["r"]]
                arr = stk[0 if stk.stack_depth() else 0].copy() if stk.stack_depth() else None
                arr.coord = np.array(op["coord"], dtype=np.float32).reshape(stk.array_length(), 3)
                arr.box = None if op["box"] is None else np.array(op["box"], dtype=np.float32)
                if op.get("break_annot") and arr.array_length() > 0:
                    break_annotations(arr, op.get("break_how"))
                stk[op["i"]] = arr
                return {}, None
            return f
        if name == "annot":
            def f():
                obj = R[op["r"]]
                what, cat = op["what"], op["cat"]
                if what == "add":
                    t = CAT_TYPES[cat]
                    if t == "str":
                        dtype = np_annot(cat, [""]).dtype
                    else:
                        dtype = {"int": int, "float": float, "float32": np.float32, "bool": bool, "obj": object}[t]
                    if op.get("dt") and cat in obj.get_annotation_categories():
                        if op["dt"] == "wider":
                            dtype = {"int": np.float64, "float": np.float64, "float32": np.float64, "bool": np.int64, "obj": object}.get(t)
                            if t == "str":
                                dtype = np.dtype(f"U{obj.get_annotation(cat).dtype.itemsize // 4 + 6}")
                        elif op["dt"] == "narrower":
                            dtype = {"int": np.int8, "float": np.float32, "float32": np.float16, "bool": bool, "str": np.dtype("U1"), "obj": np.int8}[t]
                        else:
                            dtype = np.dtype("U1")
                    obj.add_annotation(cat, dtype=dtype)
                elif what == "set":
                    obj.set_annotation(cat, natural_annot(cat, op["values"], cat in obj.get_annotation_categories()))
                elif what == "attr":
                    setattr(obj, cat, natural_annot(cat, op["values"], True))
                else:
                    obj.del_annotation(cat)
                return {}, None
            return f
        if name == "assign":
            def f():
                obj = R[op["r"]]
                what = op["what"]
                if what == "coord":
                    v = np.array(op["value"], dtype=np.float32).reshape(obj.coord.shape)
                    if op.get("bad") == "rank":
                        v = v.reshape((1,) + v.shape)
                    elif op.get("bad") == "length":
                        v = np.concatenate([v, v[..., :1, :] if v.shape[-2] else np.zeros(v.shape[:-2] + (1, 3), dtype=np.float32)], axis=-2)
                    obj.coord = v
                elif what == "box":
                    if op["value"] is None:
                        obj.box = None
                    else:
                        v = np.array(op["value"], dtype=np.float32)
                        if v.size == 0:
                            v = v.reshape(0, 3, 3)
                        if op.get("bad") == "rank":
                            v = v.reshape((1,) + v.shape)
                        obj.box = v
                else:
                    if op["value"] is None:
                        obj.bonds = None
                    else:
                        n = obj.array_length()
                        pairs = {(i, j): t for i, j, t in op["value"] if i < n and j < n}
                        obj.bonds = build_bonds(n + (1 if op.get("bad") == "count" else 0), pairs)
                return {}, None
            return f
        if name == "poke":
            def f():
                obj = R[op["r"]]
                m = self.ms[op["r"]]
                what = op["what"]
                if m.kind == "atom":
                    if what == "annot":
                        setattr(obj, op["cat"], op["value"])
                    else:
                        obj.coord[op["i"] % 3] = op["value"]
                    return {}, None
                i = op["i"] % m.n
                if what == "coord":
                    if m.kind == "array":
                        obj.coord[i] = op["value"]
                    else:
                        obj.coord[op["k"] % m.m, i] = op["value"]
                elif what == "annot":
                    # the annotation array as handed out by get_annotation(), or (every other position) by attribute access
                    arr = getattr(obj, op["cat"]) if op["i"] % 2 else obj.get_annotation(op["cat"])
                    arr[i] = op["value"]
                elif what == "box":
                    if m.kind == "array":
                        obj.box[0, 0] = op["value"]
                    else:
                        obj.box[op["k"] % m.m, 0, 0] = op["value"]
                elif what == "bond_add":
                    obj.bonds.add_bond(i, op["j"] % m.n, op["t"])
                else:
                    (a, b) = sorted(m.bonds)[op["i"] % len(m.bonds)]
                    obj.bonds.remove_bond(a, b)
                return {}, None
            return f
        if name == "read":
            def f():
                obj = R[op["r"]]
                what = op["what"]
                if what == "get_atom":
                    return {}, obj.get_atom(op["i"])
                if what == "get_array":
                    return {}, obj.get_array(op["i"])
                if what == "iter":
                    return {}, list(obj)
                if what == "len":
                    self.check_windows(obj, self.ms[op["r"]])
                    return {}, len(obj)
                return {}, obj.shape
            return f
        raise AssertionError(name)

    def check_windows(self, obj, m):
        """Two overlapping windows of one array (views of the same buffers, shifted by one atom; and the array against
        itself reversed) have equal annotations exactly if the model's value lists say so; stack() of two windows
        whose annotations differ must be refused."""
        import biotite.structure as struc

        if m is None or m.kind != "array" or m.n < 3 or not isinstance(obj, struc.AtomArray):
            return
        for label, w1, w2, l1, l2 in (("shifted", obj[0:m.n - 1], obj[1:m.n], slice(0, m.n - 1), slice(1, m.n)),
                                      ("reversed", obj[:], obj[::-1], slice(None), slice(None, None, -1))):
            exp = all(same_vals(v[l1], v[l2]) for v in m.ann.values())
            st, got = call(w1.equal_annotations, w2)
            if st == "exc" or bool(got) != exp:
                self.fail("model:equal_annotations-of-overlapping-windows", what=label, got=got if st == "ok" else exc_name(got), expected=exp)
            if not exp:
                st, val = call(struc.stack, [w1, w2])
                if st == "ok" or not isinstance(val, ValueError):
                    self.fail("rejection:accepted", op="stack of two windows of one array whose annotations differ", what=label,
                              got="ok" if st == "ok" else exc_name(val))
        self.res.stats["probe:overlapping-windows-compared"] += 1

    def compare_value(self, got, exp, op):
        kind, e = exp
        if kind in ("len", "shape"):
            if tuple(np.atleast_1d(got).tolist()) != tuple(np.atleast_1d(e).tolist()):
                self.fail("model:read-differs", what=kind, got=got, expected=e)
            return
        items = [got] if kind in ("atom", "array") else list(got)
        exps = [e] if kind in ("atom", "array") else list(e)
        if len(items) != len(exps):
            self.fail("model:read-differs", what=kind, got=len(items), expected=len(exps))
        for g, x in zip(items, exps):
            o = observe(g)
            if o.kind != x.kind or not same_ann(o.ann, x.ann) or not same_coord(o.coord, x.coord):
                self.fail("model:read-differs", what=kind, got=m_to_json(o), expected=m_to_json(x))
            if x.kind == "array":
                if (o.box is None) != (x.box is None) or (x.box is not None and not same_coord(o.box, x.box)):
                    self.fail("model:read-differs", what=kind + ":box", got=None if o.box is None else o.box.tolist())
                if (o.bonds or None if x.bonds is None else o.bonds) != x.bonds:
                    self.fail("model:read-differs", what=kind + ":bonds", got=o.bonds, expected=x.bonds)

    def run(self):
        for i, op in enumerate(self.spec["ops"]):
            self.step = i
            self.res.n_ops += 1
            self.res.stats["op:" + op["op"]] += 1
            out = self.do(op)
            it = op.get("idx", {}).get("t") if isinstance(op.get("idx"), dict) else op.get("what")
            self.res.features.add((op["op"], it, out))
            self.log.add({"i": i, "op": op["op"], "out": out,
                          "regs": [None if m is None else [m.kind[0], m.n, m.m, None if m.bonds is None else len(m.bonds), m.box is not None]
                                   for m in self.ms]})
            if out != "skip":
                self.check_all(op["op"])

    def note(self, op):
        st = self.res.stats
        if op["op"] == "index":
            m = self.ms[op["src"]]
            idx = op["idx"]
            if idx["t"] in ("2d", "ell2"):
                st["probe:two-dimensional-index"] += 1
                if m is not None and m.kind == "stack" and idx["b"]["t"] == "int" and idx["b"]["v"] < 0 and idx.get("a", {"t": "ell"})["t"] != "int":
                    st["probe:negative-int-in-atom-axis-of-stack"] += 1
            b = idx.get("b", idx)
            if b["t"] == "arr":
                v = b["v"]
                if m is not None and m.bonds and any(x < 0 for x in v) and v != sorted(v):
                    st["probe:negative-unsorted-index-on-bonded"] += 1
                if len(set(v)) != len(v):
                    st["probe:duplicate-index-array"] += 1
        if op["op"] == "del":
            m = self.ms[op["r"]]
            if m is not None and m.kind == "stack" and m.box is not None:
                st["probe:model-deletion-with-box"] += 1

    def do(self, op):
        name = op["op"]
        # registers named by the op must exist
        for k in ("src", "r"):
            if k in op and (op[k] >= len(self.regs)):
                return "skip"
        if any(r >= len(self.regs) for r in op.get("srcs", [])) or op.get("dst", 0) >= len(self.regs):
            return "skip"
        self.note(op)
        try:
            res = m_apply(self.ms, op)
            reject = None
        except Reject as rj:
            res = None
            reject = rj.kinds
        if res is None and reject is None:
            return "skip"
        if "srcs" in op and any(self.regs[r] is None for r in op["srcs"]):
            return "skip"
        f = self.real(op)
        st, v = call(f)
        if st == "exc" and name == "index" and isinstance(v, ValueError):
            # a recorded defect of the compiled bond list (see known_findings.json): a read-only boolean mask on the
            # atom axis of an object that carries a bond list; it is counted, and the history goes on with the same
            # mask as a writable array (the rest of the generated history builds on this operation's result)
            idx = op["idx"]
            ax = idx.get("b", idx) if idx["t"] in ("2d", "ell2") or self.ms[op["src"]].kind == "array" else None
            src_m = self.ms[op["src"]]
            if ax is not None and ax.get("t") == "mask" and ax.get("as") == "ro" and src_m.bonds is not None:
                detail = {"op": name, "got": exc_name(v), "msg": str(v)[:200], "readonly_mask": True, "bonded": True}
                k = match_known(PROP, "op:raised", detail)
                if k is not None:
                    self.res.known.append((k["id"], k["text"]))
                    self.res.stats["known:" + k["id"]] += 1
                    import copy as _copy

                    op2 = _copy.deepcopy(op)
                    ax2 = op2["idx"].get("b", op2["idx"]) if op2["idx"]["t"] in ("2d", "ell2") else op2["idx"]
                    del ax2["as"]
                    st, v = call(self.real(op2))
        if reject is not None:
            self.res.stats["probe:rejected-op"] += 1
            self.res.stats["fault:rejected-" + name] += 1
            if st == "ok":
                self.fail("rejection:accepted", op=name, expected=list(reject), idx=op.get("idx"), what=op.get("what"), bad=op.get("bad"))
            if exc_name(v) not in reject:
                self.fail("rejection:wrong-exception", op=name, got=exc_name(v), expected=list(reject), msg=str(v)[:200], idx=op.get("idx"))
            if name == "set_atom":
                # element assignment is annotation by annotation; resync, coherence is still checked
                r = op["r"]
                self.ms[r] = observe(self.regs[r])
                self.resync_group(r)
            return "rejected:" + exc_name(v)
        if st == "exc":
            self.fail("op:raised", op=name, got=exc_name(v), msg=str(v)[:300], idx=op.get("idx"), what=op.get("what"))
        new_objs, val = v
        new_ms, mval = res
        if mval is not None:
            self.compare_value(val, mval, op)
            return "ok"
        for reg, obj in new_objs.items():
            self.regs[reg] = obj
        for reg, mm in new_ms.items():
            self.ms[reg] = mm
            if mm.kind != "atom" and mm.n > 0 and name != "new":
                self.nontrivial = True
        # alias bookkeeping
        if name in ("new", "copy", "rebuild", "repeat", "concat"):
            # documented or evidently fresh objects: a new group of their own; copy() is the one whose
            # independence the statement promises, the others are treated the same way only if they
            # really are independent, which we do not assume: only 'copy' and 'new' get a new group
            pass
        if name in ("copy", "new"):
            dst = op["dst"]
            self.group[dst] = self.next_group
            self.cgroup[dst] = self.next_group
            self.next_group += 1
            if name == "copy":
                self.res.stats["probe:copy-made"] += 1
        elif "dst" in op:
            dst = op["dst"]
            srcs = op.get("srcs", [op.get("src")])
            g = self.group[srcs[0]]
            # merge the groups of all sources: the result may share with any of them
            for s in srcs[1:]:
                old = self.group[s]
                self.group = [g if x == old else x for x in self.group]
            self.group[dst] = g
            cg = self.cgroup[srcs[0]]
            for s in srcs[1:]:
                old = self.cgroup[s]
                self.cgroup = [cg if x == old else x for x in self.cgroup]
            self.cgroup[dst] = cg
        if name == "del" and self.ms[op["r"]] is not None and self.ms[op["r"]].kind == "array":
            # the coordinate and annotation arrays of r are fresh copies now: a later write into them (or into those of
            # the containers r was derived from) concerns that one side only
            self.cgroup[op["r"]] = self.next_group
            self.next_group += 1
            self.res.stats["probe:buffers-detached-by-atom-deletion"] += 1
        if name == "poke":
            r = op["r"]
            fine = op.get("what") in ("coord", "annot")
            grp = self.cgroup if fine else self.group
            others = [i for i in range(len(self.regs)) if i != r and grp[i] == grp[r] and self.ms[i] is not None]
            if any(True for _ in others):
                self.res.stats["probe:alias-group-resync"] += 1
            self.resync_group(r, fine)
            if any(self.ms[i] is not None and self.group[i] != self.group[r] for i in range(len(self.regs)) if i != r):
                self.res.stats["probe:copy-then-inplace-write"] += 1
        if name in ("set_atom", "set_model"):
            # these write INTO the existing coordinate/annotation/box buffers, which objects derived from r
            # without copy() may share: re-synchronise the alias group instead of checking it
            self.resync_group(op["r"])
        # 'del', 'assign' and 'annot' REBIND arrays of r (np.delete, attribute assignment, dict update): no other
        # object, however it was derived, may change - the other registers keep their models and are checked
        return "ok"

    def resync_group(self, r, fine=False):
        grp = self.cgroup if fine else self.group
        for i in range(len(self.regs)):
            if i != r and grp[i] == grp[r] and self.ms[i] is not None:
                st, o = call(observe, self.regs[i])
                if st == "exc":
                    self.fail("view:raised", reg=i, got=exc_name(o))
                self.ms[i] = o


def execute(spec, keep_log=0):
    sim = Sim(spec, keep_log)
    res = sim.res
    try:
        sim.run()
    except Violation as v:
        res.violation = {"sig": v.sig, "detail": v.detail, "step": v.step}
        sim.log.add({"violation": v.sig, "step": v.step})
    res.nontrivial = res.n_ops >= 3 and sim.nontrivial
    res.digest = sim.log.digest()
    res.log = sim.log.tail if keep_log else None
    return res


def simplify(spec):
    ops = spec["ops"]
    for i, op in enumerate(ops):
        if op["op"] == "new":
            d = op["data"]
            n = len(next(iter(d["ann"].values()))) if d["ann"] else 0
            # drop bonds, box, extra annotations, trailing atoms
            if d["bonds"]:
                for j in range(len(d["bonds"])):
                    s = _copy.deepcopy(spec)
                    del s["ops"][i]["data"]["bonds"][j]
                    yield s
            if d["box"] is not None:
                s = _copy.deepcopy(spec)
                s["ops"][i]["data"]["box"] = None
                yield s
            for c in list(d["ann"]):
                if c not in MANDATORY:
                    s = _copy.deepcopy(spec)
                    del s["ops"][i]["data"]["ann"][c]
                    yield s
            if n > 1:
                s = _copy.deepcopy(spec)
                dd = s["ops"][i]["data"]
                for c in dd["ann"]:
                    dd["ann"][c] = dd["ann"][c][:-1]
                if dd["kind"] == "array":
                    dd["coord"] = dd["coord"][:-1]
                else:
                    dd["coord"] = [mm[:-1] for mm in dd["coord"]]
                if dd["bonds"]:
                    dd["bonds"] = [b for b in dd["bonds"] if b[0] < n - 1 and b[1] < n - 1]
                yield s
            if d["kind"] == "stack" and len(d["coord"]) > 1:
                s = _copy.deepcopy(spec)
                dd = s["ops"][i]["data"]
                dd["coord"] = dd["coord"][:-1]
                if dd["box"] is not None:
                    dd["box"] = dd["box"][:-1]
                yield s
        if op["op"] == "index":
            idx = op["idx"]
            for key in ("a", "b", None):
                sub = idx.get(key) if key else idx
                if isinstance(sub, dict) and sub.get("t") == "arr" and len(sub["v"]) > 1:
                    for j in range(len(sub["v"])):
                        s = _copy.deepcopy(spec)
                        t = s["ops"][i]["idx"][key] if key else s["ops"][i]["idx"]
                        del t["v"][j]
                        yield s
