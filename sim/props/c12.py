"""C12 - sequence file formats return what was written; edited file objects stay consistent.

Each file object (FastaFile, FastqFile, GenBankFile, GFFFile) keeps its text (`lines`, the durable
state) and an incrementally maintained index over it (volatile). The simulation drives a seeded
history of edits, typed puts/gets, streaming reads/writes and *restarts through a simulated medium*,
and after every step checks (I1) live view == view of a re-parse of the live text, (I2) view == model,
(I3) typed values read back after restart equal what was put."""

import io
import os
import shutil
import tempfile
import warnings

import numpy as np

from ..core import EventLog, RunResult, Violation, call, exc_name

PROP = "C12"
TIERS = {"quick": 20000, "thorough": 1000000}
WALL_CAP = {"quick": 900, "thorough": 6 * 3600}
SHRINK_BUDGET = 250

COMPONENTS = {
    "real": ["biotite.file.TextFile (read/write/read_iter/write_iter, wrap_string)",
             "biotite.sequence.io.fasta (FastaFile + convert)", "biotite.sequence.io.fastq (FastqFile + convert)",
             "biotite.sequence.io.genbank (GenBankFile, annotation, sequence, metadata)",
             "biotite.sequence.io.gff (GFFFile + convert)", "biotite.sequence.io.general (load/save_sequence(s))",
             "Sequence / Annotation / Feature / Location / Alignment classes", "real files in a run-private scratch directory"],
    "stub": ["storage medium chosen by the scheduler (StringIO / path / NamedTemporaryFile wrapper / TextIOWrapper with universal newlines)"],
}
RULE = ("Each run: one format (fasta|fastq|genbank|gff|general) with per-run knobs (chars_per_line, FASTQ offset), then up to 40 operations: "
        "mapping/list edits, rejected operations, typed puts and gets through the converters, streaming read_iter/write_iter, restarts through a medium. "
        "Non-trivial: >= 3 operations with at least one successful mutation and one restart/stream/typed read-back; distinct = distinct (cfg, ops) hashes.")
ASSUMPTIONS = [
    "headers/identifiers: printable, no line break, no leading/trailing blank; sequences are symbols of the sequence alphabets (FASTQ reads have length >= 1)",
    "FASTQ scores are those whose character for the offset is printable ASCII (33..126)",
    "GenBank field names <= 11 and sub-field names <= 9 characters without blanks, content of >= 1 line; FEATURES/ORIGIN raw content lines start with a blank",
    "GenBank locations: every defect flag is generated; MISS_LEFT/MISS_RIGHT (slicing artefacts the feature table cannot express) are expected to be dropped on read-back and to leave the expressible defects untouched; qualifier values contain no double quote",
    "GFF3: seqid/source/type are non-empty GFF3 tokens without leading '#' or '>' and without tabs; attribute values have no leading/trailing blank; IDs of multi-location features are unique",
]
PROBES = ["fasta-replace-existing", "fastq-score-at-or-plus-at-line-start", "fastq-wrapped", "genbank-valueless-qualifier",
          "genbank-join-location", "genbank-open-ended-location", "gff-percent-quoted", "gff-multi-location-feature",
          "stream-read-iter", "stream-write-iter", "typed-roundtrip", "rejected-op", "restart"]

MEDIA = ["memory", "path", "tempfile", "wrapper", "pathobj", "shortread", "crlf"]


class ShortReadIO(io.StringIO):
    """A text stream that hands out at most `k` characters per read(size) call, as pipes, sockets and some wrappers do
    (a short read is legal for any file object). read() without a size still returns everything."""

    def __init__(self, text, k):
        super().__init__(text)
        self.k = k
        self.short_reads = 0

    def read(self, size=-1):
        if size is None or size < 0:
            return super().read()
        self.short_reads += 1
        return super().read(min(size, self.k))


# ================================================================================================
# generation
# ================================================================================================

HEADERS = ["seq1", "seq2", "a b", "x|y|z", ">gt", "", "sp|P12345|NAME_HUMAN some description", ";semi", "tab\tinside",
           "été", "@at", "+plus", "#hash", "a  b", "1", "seq1 ", "k" * 120]
NUC = "ACGT"
NUC_AMB = "ACGTRYWSMKHBVDN"
PROT = "ACDEFGHIKLMNPQRSTVWY"


def gen_seq(rng, kind, minlen=0, maxlen=200):
    n = rng.choice([minlen, 1, 2, 5, 10, 59, 60, 61, 80, 81, 120, rng.randint(minlen, maxlen)])
    n = max(minlen, min(n, maxlen))
    if rng.random() < 0.03:
        n = rng.choice([600, 601, 1200, 2405])  # several ORIGIN lines / many wrapped lines
    letters = {"nuc": NUC, "nuc_amb": NUC_AMB, "prot": PROT, "prot_stop": PROT + "*"}[kind]
    return "".join(rng.choice(letters) for _ in range(n))


def gen_header(rng):
    h = rng.choice(HEADERS)
    return h.strip() if h != "seq1 " or rng.random() < 1.0 else h


def gen_fasta(rng, n):
    cfg = {"format": "fasta", "cpl": rng.choice([1, 2, 3, 7, 60, 80, 100])}
    ops = []
    keys = []
    while len(ops) < n:
        r = rng.random()
        if r < 0.30 or not keys:
            h = rng.choice(keys) if keys and rng.random() < 0.35 else gen_header(rng)
            ops.append({"op": "set", "k": h, "seq": gen_seq(rng, rng.choice(["nuc", "nuc_amb", "prot", "prot_stop"]))})
            if h not in keys:
                keys.append(h)
        elif r < 0.42:
            h = rng.choice(keys) if rng.random() < 0.85 else gen_header(rng)
            ops.append({"op": "del", "k": h})
            if h in keys:
                keys.remove(h)
        elif r < 0.50:
            ops.append({"op": "get", "k": rng.choice(keys) if rng.random() < 0.85 else gen_header(rng)})
        elif r < 0.56:
            ops.append({"op": "protocol", "what": rng.choice(["len", "iter", "contains", "items"]), "k": gen_header(rng)})
        elif r < 0.62:
            # the rest of the MutableMapping interface the classes are documented to implement
            what = rng.choice(["clear", "pop", "pop", "pop_default", "popitem", "update", "setdefault", "keys", "values", "get_default"])
            k = rng.choice(keys) if keys and rng.random() < 0.7 else gen_header(rng)
            op = {"op": "mapping", "what": what, "k": k}
            if what in ("update", "setdefault"):
                op["items"] = [[k, gen_seq(rng, rng.choice(["nuc", "prot_stop"]))]]
                if what == "update" and rng.random() < 0.6:
                    op["items"].append([gen_header(rng), gen_seq(rng, "nuc")])
                for kk, _ in op["items"]:
                    if kk not in keys:
                        keys.append(kk)
            if what == "clear":
                keys.clear()
            if what in ("pop", "pop_default") and k in keys:
                keys.remove(k)
            ops.append(op)
        elif r < 0.70:
            ops.append({"op": "restart", "medium": rng.choice(MEDIA)})
        elif r < 0.76:
            ops.append({"op": "read_iter", "medium": rng.choice(MEDIA)})
        elif r < 0.82:
            items = [[gen_header(rng) + str(i), gen_seq(rng, rng.choice(["nuc", "prot_stop"]))] for i in range(rng.randint(1, 4))]
            ops.append({"op": "write_iter", "medium": rng.choice(MEDIA), "items": items, "cpl": rng.choice([1, 3, 60, 80])})
        elif r < 0.90:
            kind = rng.choice(["nuc", "nuc_amb", "prot_stop"])
            ops.append({"op": "typed_seq", "k": rng.choice(keys) if keys and rng.random() < 0.3 else gen_header(rng),
                        "kind": kind, "seq": gen_seq(rng, kind, 1), "as_rna": rng.random() < 0.25})
            if ops[-1]["k"] not in keys:
                keys.append(ops[-1]["k"])
        elif r < 0.92:
            kind = rng.choice(["nuc", "nuc_amb", "prot_stop"])
            k = rng.randint(1, 4)
            ops.append({"op": "typed_seqs", "kind": kind, "names": [f"multi{i}" for i in range(k)],
                        "seqs": [gen_seq(rng, kind, 1) for _ in range(k)]})
            for nme in ops[-1]["names"]:
                if nme not in keys:
                    keys.append(nme)
        elif r < 0.95:
            kind = rng.choice(["nuc", "prot"])
            k = rng.randint(2, 4)
            ops.append({"op": "typed_alignment", "kind": kind, "seqs": [gen_seq(rng, kind, 1, 12) for _ in range(k)],
                        "seed": rng.randrange(1 << 30), "names": [f"ali{i}" for i in range(k)]})
            for nme in ops[-1]["names"]:
                if nme not in keys:
                    keys.append(nme)
        else:
            ops.append({"op": "bad", "what": rng.choice(["int_key", "bytes_seq"])})
    return {"cfg": cfg, "ops": ops}


def gen_scores(rng, n, offset, cpl):
    lo, hi = 33 - offset, 126 - offset
    special = [64 - offset, 43 - offset]  # '@' and '+'
    out = []
    for i in range(n):
        if cpl and i % cpl == 0 and rng.random() < 0.5:
            out.append(rng.choice(special))
        elif rng.random() < 0.1:
            out.append(rng.choice([lo, hi] + special))
        else:
            out.append(rng.randint(lo, hi))
    return out


OFFSETS = {"Sanger": 33, "Solexa": 64, "Illumina-1.3": 64, "Illumina-1.5": 64, "Illumina-1.8": 33}


def gen_fastq(rng, n):
    off = rng.choice([33, 64, "Sanger", "Solexa", "Illumina-1.3", "Illumina-1.5", "Illumina-1.8"])
    cfg = {"format": "fastq", "offset": off, "cpl": rng.choice([None, None, 1, 2, 3, 7, 60])}
    o = off if isinstance(off, int) else OFFSETS[off]
    ops = []
    keys = []
    ids = ["read1", "read2", "r 3", "@r", "+r", "x/1", "", "SRR001666.1 071112_SLXA-EAS1_s_7:5:1:817:345 length=36"]

    def entry(minlen=1):
        s = gen_seq(rng, rng.choice(["nuc", "nuc_amb"]), minlen, 150)
        return s, gen_scores(rng, len(s), o, cfg["cpl"])

    while len(ops) < n:
        r = rng.random()
        if r < 0.32 or not keys:
            k = rng.choice(keys) if keys and rng.random() < 0.35 else rng.choice(ids)
            s, q = entry()
            ops.append({"op": "set", "k": k, "seq": s, "scores": q})
            if k not in keys:
                keys.append(k)
        elif r < 0.44:
            k = rng.choice(keys) if rng.random() < 0.85 else rng.choice(ids)
            ops.append({"op": "del", "k": k})
            if k in keys:
                keys.remove(k)
        elif r < 0.52:
            ops.append({"op": "get", "k": rng.choice(keys) if rng.random() < 0.85 else rng.choice(ids)})
        elif r < 0.58:
            ops.append({"op": "protocol", "what": rng.choice(["len", "iter", "contains", "items"]), "k": rng.choice(ids)})
        elif r < 0.64:
            what = rng.choice(["clear", "pop", "pop", "pop_default", "popitem", "update", "setdefault", "keys", "values", "get_default"])
            k = rng.choice(keys) if keys and rng.random() < 0.7 else rng.choice(ids)
            op = {"op": "mapping", "what": what, "k": k}
            if what in ("update", "setdefault"):
                op["items"] = [[k, list(entry())]]
                if what == "update" and rng.random() < 0.6:
                    op["items"].append([rng.choice(ids), list(entry())])
                for kk, _ in op["items"]:
                    if kk not in keys:
                        keys.append(kk)
            if what == "clear":
                keys.clear()
            if what in ("pop", "pop_default") and k in keys:
                keys.remove(k)
            ops.append(op)
        elif r < 0.72:
            ops.append({"op": "restart", "medium": rng.choice(MEDIA)})
        elif r < 0.78:
            ops.append({"op": "read_iter", "medium": rng.choice(MEDIA)})
        elif r < 0.84:
            items = []
            for i in range(rng.randint(1, 4)):
                s, q = entry()
                items.append([rng.choice(ids) + str(i), s, q])
            ops.append({"op": "write_iter", "medium": rng.choice(MEDIA), "items": items, "cpl": rng.choice([None, 1, 3, 60])})
        elif r < 0.90:
            s, q = entry()
            ops.append({"op": "typed_seq", "k": rng.choice(ids), "seq": s, "scores": q, "as_rna": rng.random() < 0.2})
            if ops[-1]["k"] not in keys:
                keys.append(ops[-1]["k"])
        elif r < 0.93:
            items = []
            for i in range(rng.randint(1, 3)):
                s, q = entry()
                items.append([f"multi{i}", s, q])
            ops.append({"op": "typed_seqs", "items": items})
            for it in items:
                if it[0] not in keys:
                    keys.append(it[0])
        else:
            s, q = entry(2)
            if rng.random() < 0.5:
                ops.append({"op": "bad", "what": "length_mismatch", "k": rng.choice(ids), "seq": s, "scores": q[:-1]})
            else:
                # refused late: the lengths agree, but one score has no character in any offset (found only when the
                # score string is built, after the entry to be replaced may already have been taken out)
                ops.append({"op": "bad", "what": "unencodable_score", "k": rng.choice(keys) if keys and rng.random() < 0.8 else rng.choice(ids),
                            "seq": s, "scores": [100] + list(q[1:])})  # 100 + 33 and 100 + 64 are both beyond ASCII
    return {"cfg": cfg, "ops": ops}


GB_NAMES = ["LOCUS", "DEFINITION", "ACCESSION", "VERSION", "KEYWORDS", "SOURCE", "REFERENCE", "COMMENT", "DBLINK", "X", "ELEVENCHARS"]
GB_SUB = ["ORGANISM", "AUTHORS", "TITLE", "JOURNAL", "PUBMED", "NINECHARS"]
GB_LINES = ["Homo sapiens", "a b c", "", "1..100", "value: with colon", "  indented", "trailing ", "x" * 70, "//not-end", "ORIGIN-like", "12345"]


def gen_gb_field(rng):
    name = rng.choice(GB_NAMES)
    if rng.random() < 0.15:
        name = name.lower()
    content = [rng.choice(GB_LINES) for _ in range(rng.randint(1, 3))]
    sub = None
    r = rng.random()
    if r < 0.35:
        sub = {}
        for s in rng.sample(GB_SUB, rng.randint(1, 3)):
            sub[s if rng.random() < 0.8 else s.lower()] = [rng.choice(GB_LINES) for _ in range(rng.randint(1, 2))]
    elif r < 0.45:
        sub = {}
    if rng.random() < 0.08:
        name = rng.choice(["FEATURES", "ORIGIN"])
        content = [" " + rng.choice(GB_LINES) for _ in range(rng.randint(1, 3))]
        sub = None
    return name, content, sub


FEATURE_KEYS = ["gene", "CDS", "source", "misc_feature", "regulatory", "mat_peptide", "a_15_char_key__"]
QUAL_KEYS = ["gene", "product", "note", "db_xref", "locus_tag", "codon_start", "pseudo", "translation"]
QUAL_VALS = ["abcA", "hypothetical protein", "a/b", "x=y", "/note=inner", "1", "", "GeneID:1234", "50% identity; partial", "a b  c", "trailing ",
             "(complement)", "join(1..2)", "=", "/", "tab\there", "MKV" * 30]


# GFF3 column values carry no leading/trailing blank (the reader strips the line)
GFF_VALS = [v for v in QUAL_VALS if v == v.strip()] + ["a;b", "k=v", "50%", "a,b", "a&b", "Na+/K+ ATPase", "cds+1", "+", "a%2Bb"]


GFF_EXTRA_KEYS = ["Id", "id", "iD", "name", "parent", "Note2"]
WORDS = ["alpha", "beta", "gamma", "delta", "iota", "kappa", "of", "the", "ATP-binding", "subunit", "(EC 1.2.3.4)", "a", "x=y", "50%"]


def long_text(rng, for_gff):
    """A value longer than a line of the format (60-220 characters): words separated by one blank, now and then by two."""
    out = rng.choice(WORDS)
    target = rng.randint(60, 220)
    while len(out) < target:
        out += ("  " if rng.random() < 0.2 else " ") + rng.choice(WORDS)
    return out


def gen_location(rng, maxpos):
    l = _gen_location(rng, maxpos)
    if rng.random() < 0.12:
        # what slicing an annotated sequence leaves on a feature cut at the border (not expressible in GenBank,
        # must not disturb what is; stripped again for GFF3)
        l[3] = list(l[3]) + rng.choice([["MISS_LEFT"], ["MISS_RIGHT"], ["MISS_LEFT", "MISS_RIGHT"]])
    return l


def _gen_location(rng, maxpos):
    a = rng.randint(1, maxpos)
    b = rng.randint(a, maxpos)
    strand = rng.choice([1, 1, -1])
    r = rng.random()
    if r < 0.12:
        return [a, a, strand, []]
    if r < 0.22 and b > a:
        return [a, b, strand, rng.choice([["BEYOND_LEFT"], ["BEYOND_RIGHT"], ["BEYOND_LEFT", "BEYOND_RIGHT"]])]
    if r < 0.28 and b > a:
        return [a, b, strand, ["UNK_LOC"]]
    if r < 0.34 and a < maxpos:
        return [a, a + 1, strand, ["BETWEEN"]]
    if r < 0.38:
        return [a, a, strand, [rng.choice(["BEYOND_LEFT", "BEYOND_RIGHT"])]]
    if b == a and maxpos > a:
        b = a + 1
    return [a, b, strand, []]


def gen_feature(rng, maxpos, for_gff=False, fid=None):
    key = rng.choice(FEATURE_KEYS[:-1] if for_gff else FEATURE_KEYS)
    nloc = rng.choice([1, 1, 1, 2, 3, 4])
    locs = []
    for _ in range(nloc):
        l = gen_location(rng, maxpos)
        if for_gff:
            l[3] = []
            if l[0] == l[1] and False:
                pass
        if not any(l[:2] == x[:2] and l[2] == x[2] for x in locs):
            locs.append(l)
    qual = {}
    for k in rng.sample(QUAL_KEYS + (GFF_EXTRA_KEYS if for_gff else []), rng.randint(0, 3)):
        r = rng.random()
        if for_gff and k in GFF_EXTRA_KEYS:
            # ordinary qualifiers whose names differ from a reserved GFF3 tag only in case; few values, so that
            # neighbouring features often share one
            qual[k] = rng.choice(["shared", "x1"])
        elif r > 0.88:
            qual[k] = long_text(rng, for_gff)
        elif for_gff:
            qual[k] = rng.choice(GFF_VALS)
        elif r < 0.2:
            qual[k] = None
        elif r < 0.3:
            qual[k] = rng.choice(QUAL_VALS) + "\n" + rng.choice(QUAL_VALS)
        else:
            qual[k] = rng.choice(QUAL_VALS)
    if for_gff and (len(locs) > 1 or rng.random() < 0.4):
        qual["ID"] = fid
    return {"key": key, "locs": locs, "qual": qual}


def gen_annotation(rng, maxpos, for_gff=False):
    feats = []
    for i in range(rng.choice([0, 1, 1, 2, 3, 4, 5])):  # an annotation without any feature is a feature set too
        feats.append(gen_feature(rng, maxpos, for_gff, fid=f"id{i}"))
    return feats


def gen_genbank(rng, n):
    cfg = {"format": "genbank"}
    ops = []
    size = 0
    while len(ops) < n:
        r = rng.random()
        if r < 0.22 or size == 0:
            name, content, sub = gen_gb_field(rng)
            idx = rng.choice([0, size, -1, rng.randint(0, size)]) if size else 0
            if rng.random() < 0.05:
                idx = rng.choice([size + 1, size + 5, -size - 1, -size - 3])
            ops.append({"op": "insert", "i": idx, "name": name, "content": content, "sub": sub})
            size += 1
        elif r < 0.30:
            name, content, sub = gen_gb_field(rng)
            ops.append({"op": "append", "name": name, "content": content, "sub": sub})
            size += 1
        elif r < 0.42:
            name, content, sub = gen_gb_field(rng)
            idx = rng.randint(-size, size - 1) if rng.random() < 0.93 else rng.choice([size, size + 2, -size - 1])
            ops.append({"op": "setitem", "i": idx, "name": name, "content": content, "sub": sub, "two": sub is None and rng.random() < 0.5})
        elif r < 0.52:
            idx = rng.randint(-size, size - 1) if rng.random() < 0.93 else rng.choice([size, size + 2, -size - 1])
            ops.append({"op": "delitem", "i": idx})
            size = max(0, size - 1)
        elif r < 0.58:
            name, content, sub = gen_gb_field(rng)
            ops.append({"op": "set_field", "name": name, "content": content, "sub": sub})
            size += 1
        elif r < 0.64:
            ops.append({"op": "getitem", "i": rng.randint(-size, size - 1) if rng.random() < 0.9 else size + 1})
        elif r < 0.68:
            ops.append({"op": "get_fields", "name": rng.choice(GB_NAMES)})
        elif r < 0.80:
            ops.append({"op": "restart", "medium": rng.choice(MEDIA)})
        elif r < 0.88:
            kind = rng.choice(["nuc", "nuc_amb", "prot_stop"])
            seq = gen_seq(rng, kind, 1, 150)
            ops.append({"op": "typed_annotated", "kind": kind, "seq": seq, "start": rng.choice([1, 1, 5, 1001, 999999, 123456789, 1234567890, 31415926535]),
                        "features": gen_annotation(rng, max(len(seq), 2)), "medium": rng.choice(MEDIA)})
            size += 2
        elif r < 0.92:
            kind = rng.choice(["nuc", "prot_stop"])
            ops.append({"op": "typed_sequence", "kind": kind, "seq": gen_seq(rng, kind, 1, 150), "start": rng.choice([1, 7]), "medium": rng.choice(MEDIA)})
            size += 1
        elif r < 0.96:
            ops.append({"op": "typed_annotation", "features": gen_annotation(rng, 500), "medium": rng.choice(MEDIA)})
            size += 1
        elif r < 0.965:
            k = rng.randint(2, 3)
            recs = []
            for _ in range(k):
                kind = rng.choice(["nuc", "prot_stop"])
                seq = gen_seq(rng, kind, 1, 80)
                recs.append({"kind": kind, "seq": seq, "start": rng.choice([1, 11]), "features": gen_annotation(rng, max(len(seq), 2)),
                             "definition": rng.choice(["first record", "another one", "x"])})
            if len({x["kind"] for x in recs}) > 1:
                for x in recs:
                    x["kind"], x["seq"] = recs[0]["kind"], gen_seq(rng, recs[0]["kind"], 1, 80)
            ops.append({"op": "multi_record", "records": recs, "medium": rng.choice(MEDIA)})
        elif r < 0.972:
            # the remaining typed getters of metadata.py read fields the caller put through the raw layer
            acc = rng.choice(["AB000001", "NC_000913", "P12345"])
            ops.append({"op": "typed_meta", "accession": acc, "version": acc + "." + str(rng.randint(1, 12)),
                        "gi": rng.choice([None, 15, 1234567890]),
                        "dblink": rng.sample([["BioProject", "PRJNA57779"], ["BioSample", "SAMN02604091"], ["Assembly", "GCF_000005845.2"]], rng.randint(1, 3)),
                        "source": rng.choice(["Escherichia coli str. K-12 substr. MG1655", "synthetic construct", "Homo sapiens (human)"]),
                        "definition": rng.sample(["Escherichia coli str. K-12", "substr. MG1655,", "complete genome."], rng.randint(1, 3)),
                        "medium": rng.choice(MEDIA)})
            size += 6
        elif r < 0.98:
            ops.append({"op": "typed_locus", "name": rng.choice(["AB000001", "seq", "NC_000913.3"]), "length": rng.choice([1, 1234, 4641652]),
                        "mol_type": rng.choice(["DNA", "mRNA", "ss-RNA", "Protein", None]), "circular": rng.random() < 0.5,
                        "division": rng.choice(["BCT", "PRI", "SYN", None]), "date": rng.choice(["01-JAN-2000", "27-SEP-2026", None]),
                        "medium": rng.choice(MEDIA)})  # None: the documented optional argument is left out
            size += 1
        else:
            ops.append({"op": "bad", "what": rng.choice(["empty_name", "not_tuple"])})
    return {"cfg": cfg, "ops": ops}


GFF_SEQID = ["chr1", "ctg123", "NC_000913.3", "scaffold|7", "a b", "x;y", "k=v", "50%", "a,b", "a&b", "é"]
GFF_SOURCE = ["biotite", "EMBL", "my source", "a;b", "."]
GFF_TYPES = ["gene", "CDS", "mRNA", "exon", "five_prime_UTR", "region"]


def gen_gff_entry(rng):
    start = rng.randint(1, 5000)
    attrib = None
    r = rng.random()
    if r < 0.75:
        attrib = {}
        for k in rng.sample(["ID", "Name", "Parent", "Note", "Dbxref", "k;1", "k=2"], rng.randint(1, 3)):
            attrib[k] = rng.choice(GFF_VALS + ["é", "line\nbreak"])
    elif r < 0.85:
        attrib = {}
    return [rng.choice(GFF_SEQID), rng.choice(GFF_SOURCE[:-1]), rng.choice(GFF_TYPES), start, start + rng.randint(0, 3000),
            rng.choice([None, None, 0.5, 1e-30, 42, 3.0]), rng.choice([1, -1, None]), rng.choice([None, None, 0, 1, 2]), attrib]


def gen_gff(rng, n):
    cfg = {"format": "gff"}
    ops = []
    size = 0
    while len(ops) < n:
        r = rng.random()
        if r < 0.22 or size == 0:
            ops.append({"op": "append", "e": gen_gff_entry(rng)})
            size += 1
        elif r < 0.36:
            idx = rng.randint(-size, size) if rng.random() < 0.93 else rng.choice([size + 1, size + 4, -size - 1])
            ops.append({"op": "insert", "i": idx, "e": gen_gff_entry(rng)})
            size += 1
        elif r < 0.48:
            idx = rng.randint(-size, size - 1) if rng.random() < 0.93 else rng.choice([size, size + 3, -size - 1])
            ops.append({"op": "setitem", "i": idx, "e": gen_gff_entry(rng)})
        elif r < 0.58:
            idx = rng.randint(-size, size - 1) if rng.random() < 0.93 else rng.choice([size, size + 3, -size - 1])
            ops.append({"op": "delitem", "i": idx})
            size = max(0, size - 1)
        elif r < 0.64:
            ops.append({"op": "getitem", "i": rng.randint(-size, size - 1) if rng.random() < 0.9 else rng.choice([size, -size - 1])})
        elif r < 0.70:
            ops.append({"op": "directive", "name": rng.choice(["sequence-region", "species", "feature-ontology", "genome-build"]),
                        "args": rng.choice([[], ["ctg123", "1", "1497228"], ["NCBI", "B36"]])})
        elif r < 0.82:
            ops.append({"op": "restart", "medium": rng.choice(MEDIA)})
        elif r < 0.93:
            ops.append({"op": "typed_annotation", "features": gen_annotation(rng, 5000, for_gff=True), "seqid": rng.choice([None, "chr1", "ctg_1"]),
                        "source": rng.choice([None, "biotite"]), "stranded": rng.random() < 0.8, "medium": rng.choice(MEDIA)})
        else:
            ops.append({"op": "bad", "what": rng.choice(["empty_seqid", "empty_type", "gt_seqid"])})
    return {"cfg": cfg, "ops": ops}


def gen_general(rng, n):
    cfg = {"format": "general"}
    ops = []
    for _ in range(max(1, n // 6)):
        suffix = rng.choice([".fasta", ".fa", ".fastq", ".fq", ".gb", ".gbk", ".gp", ".fna"])
        kind = "prot_stop" if suffix == ".gp" else (rng.choice(["nuc", "nuc_amb", "prot"]) if suffix in (".fasta", ".fa") else rng.choice(["nuc", "nuc_amb"]))
        if rng.random() < 0.5:
            ops.append({"op": "save_load_one", "suffix": suffix, "kind": kind, "seq": gen_seq(rng, kind, 1, 150)})
        elif suffix not in (".gb", ".gbk", ".gp"):
            k = rng.randint(1, 4)
            ops.append({"op": "save_load_many", "suffix": suffix, "kind": kind, "names": [f"s{i}" for i in range(k)],
                        "seqs": [gen_seq(rng, kind, 1, 150) for _ in range(k)]})
        else:
            # save_sequences() is not implemented for GenBank; a multi-record file written record by record is
            # what load_sequences() documents to read (entries keyed by their DEFINITION)
            k = rng.randint(1, 3)
            ops.append({"op": "load_many_genbank", "suffix": suffix, "kind": kind, "names": [f"record {i}" for i in range(k)],
                        "seqs": [gen_seq(rng, kind, 1, 150) for _ in range(k)]})
    if not ops:
        ops.append({"op": "save_load_one", "suffix": ".fasta", "kind": "nuc", "seq": "ACGT"})
    return {"cfg": cfg, "ops": ops}


def generate(rng):
    fmt = rng.choices(["fasta", "fastq", "genbank", "gff", "general"], [3, 3, 4, 3, 0.5])[0]
    n = rng.randint(3, 40)
    return {"fasta": gen_fasta, "fastq": gen_fastq, "genbank": gen_genbank, "gff": gen_gff, "general": gen_general}[fmt](rng, n)


# ================================================================================================
# execution
# ================================================================================================

def scribble(seq):
    """Edit a parsed sequence object in place (the caller's own copy of the data): every symbol code is rotated by one."""
    if len(seq) > 0:
        n = len(seq.get_alphabet())
        seq.code = (seq.code + 1) % n


class Base:
    def __init__(self, spec, keep_log):
        self.spec = spec
        self.cfg = spec["cfg"]
        self.fmt = self.cfg["format"]
        self.res = RunResult()
        self.log = EventLog(spec.get("seed", "replay"))
        self.log.keep = keep_log
        self.step = -1
        self.scratch = None
        self.mutations = 0
        self.readbacks = 0

    def fail(self, sig, **detail):
        detail["format"] = self.fmt
        raise Violation(sig, detail, self.step)

    def dir(self):
        if self.scratch is None:
            self.scratch = tempfile.mkdtemp(prefix="c12-")
        return self.scratch

    # ---- the simulated medium: text written by `writer(target)` comes back through `reader(source)` ----
    def through(self, medium, writer, reader, suffix=".txt"):
        self.res.stats["medium:" + medium] += 1
        if medium == "memory":
            buf = io.StringIO()
            writer(buf)
            buf.seek(0)
            return reader(buf)
        if medium == "crlf":
            # a text stream in the newline mode of another platform: what is written as "\n" is stored, and handed
            # back on reading, as "\r\n" (io.StringIO(newline="\r\n"); a file opened with newline="\r\n" / newline="")
            buf = io.StringIO(newline="\r\n")
            writer(buf)
            buf.seek(0)
            self.res.stats["fault:crlf-stream"] += 1
            return reader(buf)
        if medium == "shortread":
            buf = io.StringIO()
            writer(buf)
            text = buf.getvalue()
            src = ShortReadIO(text, (1, 3, 16, 64, 4096)[len(text) % 5])
            out = reader(src)
            if src.short_reads:
                self.res.stats["fault:short-read"] += src.short_reads
            return out
        d = self.dir()
        if medium == "path":
            p = os.path.join(d, "m" + suffix)
            writer(p)
            return reader(p)
        if medium == "pathobj":
            import pathlib

            p = pathlib.Path(d) / ("po" + suffix)  # any os.PathLike is documented to be accepted like a str path
            writer(p)
            return reader(p)
        if medium == "tempfile":
            with tempfile.NamedTemporaryFile("w+", dir=d, suffix=suffix) as t:
                writer(t)
                t.flush()
                t.seek(0)
                return reader(t)
        if medium == "wrapper":
            p = os.path.join(d, "w" + suffix)
            with open(p, "wb") as raw:
                w = io.TextIOWrapper(raw, encoding="utf-8")
                writer(w)
                w.flush()
                w.detach()
            with open(p, "rb") as raw:
                return reader(io.TextIOWrapper(raw, encoding="utf-8", newline=None))
        raise AssertionError(medium)

    def run(self):
        with warnings.catch_warnings():
            warnings.simplefilter("ignore")
            for i, op in enumerate(self.spec["ops"]):
                self.step = i
                self.res.n_ops += 1
                self.res.stats["op:" + self.fmt + "." + op["op"]] += 1
                out = getattr(self, "op_" + op["op"])(op)
                self.res.features.add((self.fmt, op["op"], op.get("what") or op.get("medium"), out))
                self.log.add({"i": i, "op": op["op"], "out": out})
                self.invariants(op["op"])

    def invariants(self, after):
        pass

    # ---- MutableMapping interface of FastaFile / FastqFile beyond set/get/del (clear, pop, popitem, update, ...) ----
    def to_lib(self, mv):
        return mv

    def from_lib(self, v):
        return v

    def op_mapping(self, op):
        f, m = self.file, self.model
        what, k = op["what"], op["k"]
        self.res.stats["probe:mapping-" + what] += 1
        if what == "clear":
            st, v = call(f.clear)
            if st == "exc":
                self.fail("mapping:raised", what=what, got=exc_name(v), msg=str(v)[:200])
            m.clear()
            self.mutations += 1
            return "ok"
        if what in ("pop", "pop_default"):
            st, v = call(f.pop, k) if what == "pop" else call(f.pop, k, "DFLT")
            if k not in m:
                if what == "pop":
                    return self.rejected(st, v, KeyError, "missing-key")
                if st == "exc" or v != "DFLT":
                    self.fail("mapping:pop-default", got=str(v)[:100] if st == "ok" else exc_name(v))
                return "default"
            if st == "exc" or self.from_lib(v) != m[k]:
                self.fail("mapping:pop-value", key=k, got=str(v)[:100] if st == "ok" else exc_name(v), expected=str(m[k])[:100])
            del m[k]
            self.mutations += 1
            return "ok"
        if what == "popitem":
            first = next(iter(f), None)
            st, v = call(f.popitem)
            if not m:
                return self.rejected(st, v, KeyError, "popitem-on-empty")
            if st == "exc" or v[0] != first or v[0] not in m or self.from_lib(v[1]) != m[v[0]]:
                self.fail("mapping:popitem", got=str(v)[:100] if st == "ok" else exc_name(v), first=first)
            del m[v[0]]
            self.mutations += 1
            return "ok"
        if what == "update":
            items = {kk: self.to_lib(self.mv(vv)) for kk, vv in op["items"]}
            st, v = call(f.update, items)
            if st == "exc":
                self.fail("mapping:raised", what=what, got=exc_name(v), msg=str(v)[:200])
            for kk, vv in op["items"]:
                m[kk] = self.mv(vv)
            self.mutations += 1
            return "ok"
        if what == "setdefault":
            kk, vv = op["items"][0]
            st, v = call(f.setdefault, kk, self.to_lib(self.mv(vv)))
            exp = m[kk] if kk in m else self.mv(vv)
            if st == "exc" or self.from_lib(v) != exp:
                self.fail("mapping:setdefault", key=kk, got=str(v)[:100] if st == "ok" else exc_name(v), expected=str(exp)[:100])
            m.setdefault(kk, self.mv(vv))
            self.mutations += 1
            return "ok"
        if what == "keys":
            st, v = call(lambda: sorted(f.keys()))
            exp = sorted(m)
        elif what == "values":
            st, v = call(lambda: sorted(repr(self.from_lib(x)) for x in f.values()))
            exp = sorted(repr(x) for x in m.values())
        else:
            st, v = call(lambda: f.get(k, "DFLT"))
            if st == "ok" and k in m:
                v = self.from_lib(v)
            exp = m.get(k, "DFLT")
        if st == "exc" or v != exp:
            self.fail("model:protocol-differs", what=what, got=str(v)[:200] if st == "ok" else exc_name(v), expected=str(exp)[:200])
        return "ok"

    def mv(self, raw):
        """model value from the JSON form of the spec"""
        return raw

    def rejected(self, st, val, exc_types, what, **detail):
        self.res.stats["probe:rejected-op"] += 1
        self.res.stats["fault:" + what] += 1
        if st == "ok" or not isinstance(val, exc_types):
            self.fail("rejection:wrong-outcome", what=what, got="accepted" if st == "ok" else exc_name(val),
                      expected=[e.__name__ for e in (exc_types if isinstance(exc_types, tuple) else (exc_types,))], **detail)
        return "rejected:" + exc_name(val)


def npi(i, step):
    """The index as the caller might hold it: a Python int or (every third step) a numpy integer."""
    return np.int64(i) if step % 3 == 0 else i


def text_of(f):
    return "\n".join(f.lines) + "\n"


# ------------------------------------------------------------------------------------------------ FASTA

class FastaSim(Base):
    def __init__(self, spec, keep_log):
        super().__init__(spec, keep_log)
        from biotite.sequence.io.fasta import FastaFile

        self.F = FastaFile
        self.file = FastaFile(chars_per_line=self.cfg["cpl"])
        self.model = {}

    def view(self, f):
        return [(k, f[k]) for k in f]

    def invariants(self, after):
        f = self.file
        st, live = call(self.view, f)
        if st == "exc":
            self.fail("view:raised", after=after, got=exc_name(live), msg=str(live)[:200])
        if dict(live) != self.model or len(live) != len(self.model):
            self.fail("model:view-differs", after=after, got=live[:6], expected=list(self.model.items())[:6])
        if not self.model:
            if f.lines:
                self.fail("text:lines-left-in-empty-file", after=after, lines=f.lines[:5])
            return
        st, re = call(lambda: self.view(self.F.read(io.StringIO(text_of(f)))))
        if st == "exc":
            self.fail("consistency:own-text-unparsable", after=after, got=exc_name(re), msg=str(re)[:200])
        if re != live:
            self.fail("consistency:text-and-view-differ", after=after, view=live[:6], reparsed=re[:6])

    def op_set(self, op):
        k, s = op["k"], op["seq"]
        if k in self.model:
            self.res.stats["probe:fasta-replace-existing"] += 1
        st, v = call(self.file.__setitem__, k, s)
        if st == "exc":
            self.fail("edit:set-raised", got=exc_name(v), msg=str(v)[:200], key=k)
        self.model[k] = s
        self.mutations += 1
        return "ok"

    def op_del(self, op):
        k = op["k"]
        st, v = call(self.file.__delitem__, k)
        if k not in self.model:
            return self.rejected(st, v, KeyError, "missing-key")
        if st == "exc":
            self.fail("edit:delete-raised", got=exc_name(v), msg=str(v)[:200], key=k)
        del self.model[k]
        self.mutations += 1
        return "ok"

    def op_get(self, op):
        k = op["k"]
        st, v = call(self.file.__getitem__, k)
        if k not in self.model:
            return self.rejected(st, v, KeyError, "missing-key")
        if st == "exc" or v != self.model[k]:
            self.fail("model:get-differs", key=k, got=v if st == "ok" else exc_name(v), expected=self.model[k])
        return "ok"

    def op_protocol(self, op):
        f, m = self.file, self.model
        what = op["what"]
        if what == "items" and m:
            # documented: the converter without a header returns the first sequence of the file
            from biotite.sequence.io import fasta

            first_key = next(iter(f))
            st0, s0 = call(fasta.get_sequence, f)
            if st0 == "ok" and str(s0).replace("U", "T") != f[first_key].upper().replace("U", "T").replace("X", "N").replace("O", "K") \
                    and str(s0) != f[first_key]:
                self.fail("typed:get_sequence-default-not-first-entry", got=str(s0)[:40], expected=f[first_key][:40])
        if what == "len":
            st, v = call(len, f)
            exp = len(m)
        elif what == "iter":
            st, v = call(lambda: sorted(f))
            exp = sorted(m)
        elif what == "contains":
            st, v = call(lambda: op["k"] in f)
            exp = op["k"] in m
        else:
            st, v = call(lambda: dict(f.items()))
            exp = dict(m)
        if st == "exc" or v != exp:
            self.fail("model:protocol-differs", what=what, got=v if st == "ok" else exc_name(v), expected=exp)
        return "ok"

    def op_restart(self, op):
        if not self.model:
            return "skipped-empty"
        f = self.file
        before = self.view(f)
        st, new = call(self.through, op["medium"], f.write, lambda src: self.F.read(src, chars_per_line=self.cfg["cpl"]), ".fasta")
        if st == "exc":
            self.fail("restart:raised", medium=op["medium"], got=exc_name(new), msg=str(new)[:200])
        after = self.view(new)
        if after != before:
            self.fail("restart:entries-changed", medium=op["medium"], before=before[:6], after=after[:6])
        self.file = new
        self.readbacks += 1
        self.res.stats["probe:restart"] += 1
        return "ok"

    def op_read_iter(self, op):
        if not self.model:
            return "skipped-empty"
        f = self.file
        st, items = call(self.through, op["medium"], f.write, lambda src: list(self.F.read_iter(src)), ".fasta")
        if st == "exc":
            self.fail("stream:read_iter-raised", got=exc_name(items), msg=str(items)[:200])
        exp = self.view(f)
        if [tuple(x) for x in items] != exp:
            self.fail("stream:read_iter-differs-from-read", got=items[:6], expected=exp[:6])
        self.readbacks += 1
        self.res.stats["probe:stream-read-iter"] += 1
        return "ok"

    def op_write_iter(self, op):
        items = [tuple(x) for x in op["items"]]
        st, got = call(self.through, op["medium"], lambda tgt: self.F.write_iter(tgt, iter(items), chars_per_line=op["cpl"]),
                       lambda src: self.view(self.F.read(src)), ".fasta")
        if st == "exc":
            self.fail("stream:write_iter-raised", got=exc_name(got), msg=str(got)[:200])
        exp = list(dict(items).items())
        if got != exp and dict(got) != dict(items):
            self.fail("stream:write_iter-roundtrip", got=got[:6], expected=items[:6])
        self.readbacks += 1
        self.res.stats["probe:stream-write-iter"] += 1
        return "ok"

    def make_seq(self, kind, s):
        from biotite.sequence import NucleotideSequence, ProteinSequence

        if kind.startswith("prot"):
            return ProteinSequence(s)
        return NucleotideSequence(s, ambiguous=(kind == "nuc_amb"))

    def op_typed_seq(self, op):
        from biotite.sequence import NucleotideSequence, ProteinSequence
        from biotite.sequence.io import fasta

        seq = self.make_seq(op["kind"], op["seq"])
        st, v = call(fasta.set_sequence, self.file, seq, op["k"], op["as_rna"])
        if st == "exc":
            self.fail("typed:set_sequence-raised", got=exc_name(v), msg=str(v)[:200])
        # documented: T is replaced by U "if a NucleotideSequence was given"; other sequence types are written as they are
        rna = op["as_rna"] and not op["kind"].startswith("prot")
        self.model[op["k"]] = op["seq"].replace("T", "U") if rna else op["seq"]
        self.mutations += 1
        self.invariants("typed_seq")
        st, new = call(self.through, "memory", self.file.write, self.F.read, ".fasta")
        if st == "exc":
            self.fail("restart:raised", medium="memory", got=exc_name(new), msg=str(new)[:200])
        typ = ProteinSequence if op["kind"].startswith("prot") else NucleotideSequence
        st, back = call(fasta.get_sequence, new, op["k"], typ)
        if st == "exc":
            self.fail("typed:get_sequence-raised", got=exc_name(back), msg=str(back)[:200], kind=op["kind"], seq=op["seq"][:60])
        if type(back) is not typ or str(back) != op["seq"]:
            self.fail("typed:sequence-changed", kind=op["kind"], got=str(back)[:80], expected=op["seq"][:80])
        scribble(back)
        st, again = call(fasta.get_sequence, new, op["k"], typ)
        if st == "exc" or str(again) != op["seq"]:
            self.fail("typed:sequence-changed", what="second parse of the same text, after the first result was edited in place",
                      got=str(again)[:80] if st == "ok" else exc_name(again), expected=op["seq"][:80])
        self.readbacks += 1
        self.res.stats["probe:typed-roundtrip"] += 1
        return "ok"

    def op_typed_seqs(self, op):
        from biotite.sequence import NucleotideSequence, ProteinSequence
        from biotite.sequence.io import fasta

        seqs = {n: self.make_seq(op["kind"], s) for n, s in zip(op["names"], op["seqs"])}
        st, v = call(fasta.set_sequences, self.file, seqs)
        if st == "exc":
            self.fail("typed:set_sequences-raised", got=exc_name(v), msg=str(v)[:200])
        for n, s_ in zip(op["names"], op["seqs"]):
            self.model[n] = s_
        self.mutations += 1
        self.invariants("typed_seqs")
        f2 = self.F(chars_per_line=self.cfg["cpl"])
        fasta.set_sequences(f2, seqs)
        st, new = call(self.through, "memory", f2.write, self.F.read, ".fasta")
        typ = ProteinSequence if op["kind"].startswith("prot") else NucleotideSequence
        st2, back = call(fasta.get_sequences, new, typ) if st == "ok" else ("exc", new)
        if st2 == "exc":
            self.fail("typed:get_sequences-raised", got=exc_name(back), msg=str(back)[:200])
        got = [(k, str(x)) for k, x in back.items()]
        if got != list(zip(op["names"], op["seqs"])):
            self.fail("typed:sequences-changed", got=[(k, x[:30]) for k, x in got], expected=[(k, x[:30]) for k, x in zip(op["names"], op["seqs"])])
        # what a caller does with a parsed sequence is the caller's business: editing one result in place changes
        # neither the other entries of this result nor what a later parse of the same text returns
        for k, x in list(back.items())[:1]:
            scribble(x)
        got2 = [(k, str(x)) for k, x in list(back.items())[1:]]
        if got2 != list(zip(op["names"], op["seqs"]))[1:]:
            self.fail("typed:sequences-changed", what="other entries after one parsed sequence was edited in place", got=[(k, x[:30]) for k, x in got2])
        st3, again = call(fasta.get_sequences, new, typ)
        if st3 == "exc" or [(k, str(x)) for k, x in again.items()] != list(zip(op["names"], op["seqs"])):
            self.fail("typed:sequences-changed", what="second parse of the same text, after a result was edited in place",
                      got=exc_name(again) if st3 == "exc" else [(k, str(x)[:30]) for k, x in again.items()])
        self.readbacks += 1
        self.res.stats["probe:typed-roundtrip"] += 1
        return "ok"

    def op_typed_alignment(self, op):
        import random

        from biotite.sequence.align import Alignment
        from biotite.sequence.io import fasta

        from ..simworld import build_alignment

        seqs = [self.make_seq(op["kind"], s) for s in op["seqs"]]
        rows = build_alignment(op["seqs"], random.Random(f"ali:{op['seed']}"))
        trace = Alignment.trace_from_strings(rows)
        ali = Alignment(seqs, trace)
        st, v = call(fasta.set_alignment, self.file, ali, op["names"])
        if st == "exc":
            self.fail("typed:set_alignment-raised", got=exc_name(v), msg=str(v)[:200])
        for nme, row in zip(op["names"], rows):
            self.model[nme] = row
        self.mutations += 1
        self.invariants("typed_alignment")
        # a file holding only these rows must give the alignment back
        f2 = self.F(chars_per_line=self.cfg["cpl"])
        fasta.set_alignment(f2, ali, op["names"])
        st, new = call(self.through, "memory", f2.write, self.F.read, ".fasta")
        # additional_gap_chars: characters to be treated as gaps besides '-'; none of them occurs in the written rows,
        # so the choice must not matter (given as a tuple or, as documented, as a str)
        gaps = [("_",), ".", (".", "_"), "~.", "", ("*",) if op["kind"] == "nuc" else ("?",), "+("][op["seed"] % 7]
        st2, back = call(fasta.get_alignment, new, gaps, type(seqs[0])) if st == "ok" else ("exc", new)
        if st2 == "exc":
            self.fail("typed:get_alignment-raised", got=exc_name(back), msg=str(back)[:200])
        if any(type(x) is not type(seqs[0]) for x in back.sequences):
            self.fail("typed:alignment-sequence-type", got=[type(x).__name__ for x in back.sequences], expected=type(seqs[0]).__name__)
        if not np.array_equal(back.trace, trace) or [str(s) for s in back.sequences] != op["seqs"]:
            self.fail("typed:alignment-changed", got=[str(x) for x in back.get_gapped_sequences()], expected=rows)
        self.readbacks += 1
        self.res.stats["probe:typed-roundtrip"] += 1
        return "ok"

    def op_bad(self, op):
        before = list(self.file.lines)
        if op["what"] == "int_key":
            st, v = call(self.file.__setitem__, 5, "ACGT")
            out = self.rejected(st, v, (IndexError, TypeError), "non-string-header")
        else:
            st, v = call(self.file.__setitem__, "hdr_bytes", b"ACGT")
            out = self.rejected(st, v, TypeError, "non-string-sequence")
        if self.file.lines != before:
            self.fail("rejection:changed-the-file", what=op["what"])
        return out


# ------------------------------------------------------------------------------------------------ FASTQ

class FastqSim(Base):
    def __init__(self, spec, keep_log):
        super().__init__(spec, keep_log)
        from biotite.sequence.io.fastq import FastqFile

        self.F = FastqFile
        self.off = self.cfg["offset"]
        self.file = FastqFile(self.off, chars_per_line=self.cfg["cpl"])
        self.model = {}

    def view(self, f):
        out = []
        for k in f:
            s, q = f[k]
            out.append((k, s, [int(x) for x in q]))
        return out

    def invariants(self, after):
        f = self.file
        st, live = call(self.view, f)
        if st == "exc":
            self.fail("view:raised", after=after, got=exc_name(live), msg=str(live)[:200])
        if {k: (s, q) for k, s, q in live} != self.model or len(live) != len(self.model):
            self.fail("model:view-differs", after=after, got=[(k, s[:20], q[:10]) for k, s, q in live[:4]],
                      expected=[(k, v[0][:20], v[1][:10]) for k, v in list(self.model.items())[:4]])
        if not self.model:
            if f.lines:
                self.fail("text:lines-left-in-empty-file", after=after, lines=f.lines[:5])
            return
        st, re = call(lambda: self.view(self.F.read(io.StringIO(text_of(f)), self.off, self.cfg["cpl"])))
        if st == "exc":
            self.fail("consistency:own-text-unparsable", after=after, got=exc_name(re), msg=str(re)[:200], lines=f.lines[:8])
        if re != live:
            self.fail("consistency:text-and-view-differ", after=after, view=[(k, s[:20]) for k, s, q in live[:4]], reparsed=[(k, s[:20]) for k, s, q in re[:4]])
        if not isinstance(self.off, int):
            # the named formats stand for documented numeric offsets: the written characters must decode to the
            # same scores when the text is read with the number (a consistently wrong table entry would cancel
            # out between writing and reading under the same name)
            st, re2 = call(lambda: self.view(self.F.read(io.StringIO(text_of(f)), OFFSETS[self.off], self.cfg["cpl"])))
            if st == "exc" or re2 != live:
                self.fail("consistency:named-offset-differs-from-documented-number", after=after, name=self.off, number=OFFSETS[self.off])

    def to_lib(self, mv):
        return (mv[0], np.array(mv[1], dtype=int))

    def from_lib(self, v):
        return (v[0], [int(x) for x in v[1]])

    def mv(self, raw):
        return (raw[0], list(raw[1]))

    def note_scores(self, seq, scores):
        o = self.off if isinstance(self.off, int) else OFFSETS[self.off]
        cpl = self.cfg["cpl"]
        if cpl:
            if len(seq) > cpl:
                self.res.stats["probe:fastq-wrapped"] += 1
            if any(scores[i] + o in (64, 43) for i in range(0, len(scores), cpl)):
                self.res.stats["probe:fastq-score-at-or-plus-at-line-start"] += 1
        elif scores and scores[0] + o in (64, 43):
            self.res.stats["probe:fastq-score-at-or-plus-at-line-start"] += 1

    def op_set(self, op):
        k, s, q = op["k"], op["seq"], op["scores"]
        st, v = call(self.file.__setitem__, k, (s, np.array(q, dtype=int)))
        if st == "exc":
            self.fail("edit:set-raised", got=exc_name(v), msg=str(v)[:200], key=k)
        self.model[k] = (s, list(q))
        self.note_scores(s, q)
        self.mutations += 1
        return "ok"

    def op_del(self, op):
        k = op["k"]
        st, v = call(self.file.__delitem__, k)
        if k not in self.model:
            return self.rejected(st, v, KeyError, "missing-key")
        if st == "exc":
            self.fail("edit:delete-raised", got=exc_name(v), msg=str(v)[:200], key=k)
        del self.model[k]
        self.mutations += 1
        return "ok"

    def op_get(self, op):
        k = op["k"]
        st, v = call(self.file.__getitem__, k)
        if k not in self.model:
            return self.rejected(st, v, KeyError, "missing-key")
        if st == "exc" or v[0] != self.model[k][0] or [int(x) for x in v[1]] != self.model[k][1]:
            self.fail("model:get-differs", key=k, got=str(v)[:200])
        # the two documented single-purpose getters agree with the mapping access
        st, s2 = call(self.file.get_seq_string, k)
        st2, q2 = call(self.file.get_quality, k)
        if st == "exc" or st2 == "exc" or s2 != self.model[k][0] or [int(x) for x in q2] != self.model[k][1]:
            self.fail("model:get-differs", key=k, what="get_seq_string/get_quality",
                      got=[s2 if st == "ok" else exc_name(s2), str(q2)[:80] if st2 == "ok" else exc_name(q2)])
        return "ok"

    def op_protocol(self, op):
        f, m = self.file, self.model
        what = op["what"]
        if what == "len":
            st, v = call(len, f)
            exp = len(m)
        elif what == "iter":
            st, v = call(lambda: sorted(f))
            exp = sorted(m)
        elif what == "contains":
            st, v = call(lambda: op["k"] in f)
            exp = op["k"] in m
        else:
            st, v = call(lambda: sorted(k for k, _ in f.items()))
            exp = sorted(m)
        if st == "exc" or v != exp:
            self.fail("model:protocol-differs", what=what, got=v if st == "ok" else exc_name(v), expected=exp)
        return "ok"

    def op_restart(self, op):
        if not self.model:
            return "skipped-empty"
        f = self.file
        before = self.view(f)
        st, new = call(self.through, op["medium"], f.write, lambda src: self.F.read(src, self.off, self.cfg["cpl"]), ".fastq")
        if st == "exc":
            self.fail("restart:raised", medium=op["medium"], got=exc_name(new), msg=str(new)[:200])
        after = self.view(new)
        if after != before:
            self.fail("restart:entries-changed", medium=op["medium"], before=[(k, s[:20]) for k, s, q in before[:4]], after=[(k, s[:20]) for k, s, q in after[:4]])
        self.file = new
        self.readbacks += 1
        self.res.stats["probe:restart"] += 1
        return "ok"

    def op_read_iter(self, op):
        if not self.model:
            return "skipped-empty"
        f = self.file
        st, items = call(self.through, op["medium"], f.write,
                         lambda src: [(k, s, [int(x) for x in q]) for k, (s, q) in self.F.read_iter(src, self.off)], ".fastq")
        if st == "exc":
            self.fail("stream:read_iter-raised", got=exc_name(items), msg=str(items)[:200])
        if items != self.view(f):
            self.fail("stream:read_iter-differs-from-read", got=[(k, s[:20]) for k, s, q in items[:4]])
        self.readbacks += 1
        self.res.stats["probe:stream-read-iter"] += 1
        return "ok"

    def op_write_iter(self, op):
        items = [(k, (s, np.array(q, dtype=int))) for k, s, q in op["items"]]
        st, got = call(self.through, op["medium"], lambda tgt: self.F.write_iter(tgt, iter(items), self.off, chars_per_line=op["cpl"]),
                       lambda src: self.view(self.F.read(src, self.off)), ".fastq")
        if st == "exc":
            self.fail("stream:write_iter-raised", got=exc_name(got), msg=str(got)[:200])
        exp = {k: (s, list(q)) for k, s, q in op["items"]}
        if {k: (s, q) for k, s, q in got} != exp:
            self.fail("stream:write_iter-roundtrip", got=[(k, s[:20]) for k, s, q in got[:4]], expected=[(k, s[:20]) for k, s, q in op["items"][:4]])
        self.readbacks += 1
        self.res.stats["probe:stream-write-iter"] += 1
        return "ok"

    def op_typed_seq(self, op):
        from biotite.sequence import NucleotideSequence
        from biotite.sequence.io import fastq

        amb = any(c not in "ACGT" for c in op["seq"])
        seq = NucleotideSequence(op["seq"], ambiguous=amb)
        st, v = call(fastq.set_sequence, self.file, seq, np.array(op["scores"], dtype=int), op["k"], op["as_rna"])
        if st == "exc":
            self.fail("typed:set_sequence-raised", got=exc_name(v), msg=str(v)[:200])
        self.model[op["k"]] = (op["seq"].replace("T", "U") if op["as_rna"] else op["seq"], list(op["scores"]))
        self.mutations += 1
        self.invariants("typed_seq")
        st, new = call(self.through, "memory", self.file.write, lambda src: self.F.read(src, self.off), ".fastq")
        if st == "exc":
            self.fail("restart:raised", medium="memory", got=exc_name(new), msg=str(new)[:200])
        st, back = call(fastq.get_sequence, new, op["k"])
        if st == "exc":
            self.fail("typed:get_sequence-raised", got=exc_name(back), msg=str(back)[:200])
        s2, q2 = back
        if str(s2) != op["seq"] or [int(x) for x in q2] != list(op["scores"]):
            self.fail("typed:sequence-changed", got=str(s2)[:80], expected=op["seq"][:80])
        self.readbacks += 1
        self.res.stats["probe:typed-roundtrip"] += 1
        return "ok"

    def op_typed_seqs(self, op):
        from biotite.sequence import NucleotideSequence
        from biotite.sequence.io import fastq

        d = {}
        for k, s_, q in op["items"]:
            d[k] = (NucleotideSequence(s_, ambiguous=any(c not in "ACGT" for c in s_)), np.array(q, dtype=int))
        st, v = call(fastq.set_sequences, self.file, d)
        if st == "exc":
            self.fail("typed:set_sequences-raised", got=exc_name(v), msg=str(v)[:200])
        for k, s_, q in op["items"]:
            self.model[k] = (s_, list(q))
        self.mutations += 1
        self.invariants("typed_seqs")
        f2 = self.F(self.off, chars_per_line=self.cfg["cpl"])
        fastq.set_sequences(f2, d)
        st, new = call(self.through, "memory", f2.write, lambda src: self.F.read(src, self.off), ".fastq")
        st2, back = call(fastq.get_sequences, new) if st == "ok" else ("exc", new)
        if st2 == "exc":
            self.fail("typed:get_sequences-raised", got=exc_name(back), msg=str(back)[:200])
        got = [(k, str(x[0]), [int(y) for y in x[1]]) for k, x in back.items()]
        if got != [(k, s_, list(q)) for k, s_, q in op["items"]]:
            self.fail("typed:sequences-changed", got=[(k, x[:30]) for k, x, _ in got])
        self.readbacks += 1
        self.res.stats["probe:typed-roundtrip"] += 1
        return "ok"

    def op_bad(self, op):
        before = list(self.file.lines)
        st, v = call(self.file.__setitem__, op["k"], (op["seq"], np.array(op["scores"], dtype=int)))
        if op["what"] == "unencodable_score":
            # the statement asks for text and view to stay consistent, not for a refused replacement to be atomic: the
            # entry under this identifier may be what it was, or gone; everything else must be what it was (checked by
            # the consistency and model comparison after this step)
            out = self.rejected(st, v, Exception, "unencodable-score")
            st2, there = call(lambda: op["k"] in self.file)
            if st2 == "exc":
                self.fail("view:raised", what="contains after a refused replacement", got=exc_name(there))
            if not there:
                self.model.pop(op["k"], None)
            return out
        out = self.rejected(st, v, ValueError, "length-mismatch")
        if self.file.lines != before:
            self.fail("rejection:changed-the-file", what=op["what"])
        return out


# ------------------------------------------------------------------------------------------------ GenBank

def norm_field(name, content, sub):
    name = name.strip().upper()
    if name in ("FEATURES", "ORIGIN"):
        return (name, list(content), {})
    return (name, list(content), {k.upper().strip(): list(v) for k, v in (sub or {}).items()})


def make_location(l, expressible_only=False):
    from biotite.sequence import Location

    d = Location.Defect.NONE
    for nme in l[3]:
        if expressible_only and nme.startswith("MISS_"):
            continue  # the flags slicing an Annotation leaves behind; GenBank has no notation for them
        d |= getattr(Location.Defect, nme)
    return Location(l[0], l[1], Location.Strand.FORWARD if l[2] == 1 else Location.Strand.REVERSE, d)


def make_annotation(features, expressible_only=False):
    """The annotation that is put; with expressible_only, the one expected back: what the format can express."""
    from biotite.sequence import Annotation, Feature

    feats = []
    for f in features:
        feats.append(Feature(f["key"], [make_location(l, expressible_only) for l in f["locs"]], dict(f["qual"])))
    return Annotation(feats)


def describe_annotation(annot):
    out = []
    for f in sorted(annot):
        out.append({"key": f.key, "locs": sorted((l.first, l.last, l.strand.name, str(l.defect)) for l in f.locs), "qual": dict(f.qual)})
    return out


class GenBankSim(Base):
    def __init__(self, spec, keep_log):
        super().__init__(spec, keep_log)
        from biotite.sequence.io.genbank import GenBankFile

        self.F = GenBankFile
        self.file = GenBankFile()
        self.model = []

    def view(self, f):
        out = []
        for i in range(len(f)):
            n, c, s = f[i]
            out.append((n, list(c), {k: list(v) for k, v in s.items()}))
        return out

    def invariants(self, after):
        f = self.file
        st, live = call(self.view, f)
        if st == "exc":
            self.fail("view:raised", after=after, got=exc_name(live), msg=str(live)[:200])
        if live != self.model:
            self.fail("model:view-differs", after=after, got=live[:5], expected=self.model[:5])
        st, re = call(lambda: self.view(self.F.read(io.StringIO(text_of(f)))))
        if st == "exc":
            self.fail("consistency:own-text-unparsable", after=after, got=exc_name(re), msg=str(re)[:200])
        if re != live:
            self.fail("consistency:text-and-view-differ", after=after, view=live[:5], reparsed=re[:5], lines=f.lines[:12])

    def resync(self):
        self.model = self.view(self.file)

    def idx(self, i, n, inclusive=False):
        """Python list semantics for an index into n items; None if out of range."""
        if i < 0:
            i += n
        if i < 0 or i > n or (i == n and not inclusive):
            return None
        return i

    def op_insert(self, op):
        n = len(self.model)
        j = self.idx(op["i"], n, inclusive=True)
        args = (npi(op["i"], self.step), op["name"], op["content"], op["sub"])
        st, v = call(self.file.insert, *args)
        if j is None:
            # the statement only promises consistency; an out-of-range index may be refused or
            # interpreted, and the model follows the implementation (invariant I1 still applies)
            self.res.stats["fault:index-out-of-range"] += 1
            if st == "exc" and not isinstance(v, IndexError):
                self.fail("rejection:wrong-outcome", what="index-out-of-range", got=exc_name(v))
            self.resync()
            return "oor:" + ("rejected" if st == "exc" else "accepted")
        if st == "exc":
            self.fail("edit:insert-raised", got=exc_name(v), msg=str(v)[:200])
        self.model.insert(j, norm_field(op["name"], op["content"], op["sub"]))
        self.mutations += 1
        return "ok"

    def op_append(self, op):
        st, v = call(self.file.append, op["name"], op["content"], op["sub"])
        if st == "exc":
            self.fail("edit:append-raised", got=exc_name(v), msg=str(v)[:200])
        self.model.append(norm_field(op["name"], op["content"], op["sub"]))
        self.mutations += 1
        return "ok"

    def op_setitem(self, op):
        n = len(self.model)
        j = self.idx(op["i"], n)
        item = (op["name"], op["content"]) if op.get("two") else (op["name"], op["content"], op["sub"])
        st, v = call(self.file.__setitem__, npi(op["i"], self.step), item)
        if j is None:
            self.res.stats["fault:index-out-of-range"] += 1
            if st == "exc" and not isinstance(v, IndexError):
                self.fail("rejection:wrong-outcome", what="index-out-of-range", got=exc_name(v))
            self.resync()
            return "oor:" + ("rejected" if st == "exc" else "accepted")
        if st == "exc":
            self.fail("edit:setitem-raised", got=exc_name(v), msg=str(v)[:200])
        self.model[j] = norm_field(op["name"], op["content"], None if op.get("two") else op["sub"])
        self.mutations += 1
        return "ok"

    def op_delitem(self, op):
        n = len(self.model)
        j = self.idx(op["i"], n)
        st, v = call(self.file.__delitem__, npi(op["i"], self.step))
        if j is None:
            self.res.stats["fault:index-out-of-range"] += 1
            if st == "exc" and not isinstance(v, IndexError):
                self.fail("rejection:wrong-outcome", what="index-out-of-range", got=exc_name(v))
            self.resync()
            return "oor:" + ("rejected" if st == "exc" else "accepted")
        if st == "exc":
            self.fail("edit:delitem-raised", got=exc_name(v), msg=str(v)[:200])
        del self.model[j]
        self.mutations += 1
        return "ok"

    def op_set_field(self, op):
        from biotite.file import InvalidFileError

        name = op["name"].upper()
        hits = [i for i, f in enumerate(self.model) if f[0] == name]
        st, v = call(self.file.set_field, op["name"], op["content"], op["sub"])
        if len(hits) > 1:
            return self.rejected(st, v, InvalidFileError, "set_field-on-duplicate-name")
        if st == "exc":
            self.fail("edit:set_field-raised", got=exc_name(v), msg=str(v)[:200])
        nf = norm_field(op["name"], op["content"], op["sub"])
        if hits:
            self.model[hits[0]] = nf
        else:
            self.model.append(nf)
        self.mutations += 1
        return "ok"

    def op_getitem(self, op):
        n = len(self.model)
        j = self.idx(op["i"], n)
        st, v = call(self.file.__getitem__, op["i"])
        if j is None:
            if st == "ok":
                return "oor:accepted"
            if not isinstance(v, IndexError):
                self.fail("rejection:wrong-outcome", what="index-out-of-range", got=exc_name(v))
            return "oor:rejected"
        if st == "exc":
            self.fail("view:raised", got=exc_name(v))
        got = (v[0], list(v[1]), {k: list(x) for k, x in v[2].items()})
        if got != self.model[j]:
            self.fail("model:get-differs", index=op["i"], got=got, expected=self.model[j])
        return "ok"

    def op_get_fields(self, op):
        name = op["name"]
        st, v = call(self.file.get_fields, name)
        exp = [(f[1], f[2]) for f in self.model if f[0] == name]
        if st == "exc":
            self.fail("view:raised", got=exc_name(v))
        got = [(list(c), {k: list(x) for k, x in s.items()}) for c, s in v]
        if got != exp:
            self.fail("model:get_fields-differs", name=name, got=got[:3], expected=exp[:3])
        st, idxs = call(self.file.get_indices, name)
        if st == "exc" or list(idxs) != [i for i, f in enumerate(self.model) if f[0] == name]:
            self.fail("model:get_indices-differs", name=name)
        return "ok"

    def restart_file(self, medium):
        f = self.file
        st, new = call(self.through, medium, f.write, self.F.read, ".gb")
        if st == "exc":
            self.fail("restart:raised", medium=medium, got=exc_name(new), msg=str(new)[:200])
        return new

    def op_restart(self, op):
        before = self.view(self.file)
        new = self.restart_file(op["medium"])
        after = self.view(new)
        if after != before:
            self.fail("restart:entries-changed", medium=op["medium"], before=before[:5], after=after[:5])
        self.file = new
        self.readbacks += 1
        self.res.stats["probe:restart"] += 1
        return "ok"

    # -- typed layer -------------------------------------------------------------------------------
    def note_features(self, features):
        for f in features:
            if len(f["locs"]) > 1:
                self.res.stats["probe:genbank-join-location"] += 1
            if any(("BEYOND_LEFT" in l[3] or "BEYOND_RIGHT" in l[3]) for l in f["locs"]):
                self.res.stats["probe:genbank-open-ended-location"] += 1
            if any(v is None for v in f["qual"].values()):
                self.res.stats["probe:genbank-valueless-qualifier"] += 1

    def make_seq(self, kind, s):
        from biotite.sequence import NucleotideSequence, ProteinSequence

        if kind.startswith("prot"):
            return ProteinSequence(s)
        return NucleotideSequence(s, ambiguous=(kind == "nuc_amb"))

    def drop_duplicates(self, name):
        # the typed setters use set_field(), which refuses duplicates: keep at most one such field
        while True:
            hits = [i for i, f in enumerate(self.model) if f[0] == name]
            if len(hits) <= 1:
                return
            del self.file[hits[-1]]
            del self.model[hits[-1]]

    def compare_annotation(self, back, annot, features, where):
        if back != annot:
            got = describe_annotation(back)
            exp = describe_annotation(annot)
            missing = [e for e in exp if e not in got]
            extra = [g for g in got if g not in exp]
            first = (missing or extra or [None])[0]
            cls = classify_feature_problem(missing, extra)
            self.fail("typed:annotation-changed:" + cls.split(":")[0], where=where, problem=cls, missing=missing[:3], extra=extra[:3])

    def op_typed_annotated(self, op):
        from biotite.sequence import AnnotatedSequence
        from biotite.sequence.io import genbank as gb

        self.note_features(op["features"])
        seq = self.make_seq(op["kind"], op["seq"])
        annot = make_annotation(op["features"])
        aseq = AnnotatedSequence(annot, seq, sequence_start=op["start"])
        self.drop_duplicates("FEATURES")
        self.drop_duplicates("ORIGIN")
        st, v = call(gb.set_annotated_sequence, self.file, aseq)
        if st == "exc":
            self.fail("typed:set_annotated_sequence-raised", got=exc_name(v), msg=str(v)[:300])
        self.resync()
        self.mutations += 1
        self.invariants("typed_annotated")
        new = self.restart_file(op["medium"])
        fmt = "gp" if op["kind"].startswith("prot") else "gb"
        st, back = call(gb.get_annotated_sequence, new, fmt)
        if st == "exc":
            self.fail("typed:get_annotated_sequence-raised", got=exc_name(back), msg=str(back)[:300])
        if str(back.sequence) != op["seq"] or type(back.sequence) is not type(seq):
            self.fail("typed:sequence-changed", kind=op["kind"], got=str(back.sequence)[:80], expected=op["seq"][:80])
        if back.sequence_start != op["start"]:
            self.fail("typed:sequence-start-changed", got=back.sequence_start, expected=op["start"])
        self.compare_annotation(back.annotation, make_annotation(op["features"], True), op["features"], "annotated_sequence")
        # include_only restricts the features that are read back and changes nothing else
        keys = sorted({f["key"] for f in op["features"]})
        if keys:
            from biotite.sequence import Annotation

            only = keys[-1:]
            st, part = call(gb.get_annotated_sequence, new, fmt, only)
            exp_part = Annotation([f for f in make_annotation(op["features"], True) if f.key in only])
            if st == "exc" or part.annotation != exp_part or str(part.sequence) != op["seq"] or part.sequence_start != op["start"]:
                self.fail("typed:annotation-changed:include-only", where="get_annotated_sequence(include_only)", problem="include-only",
                          include_only=only, got=exc_name(part) if st == "exc" else sorted(f.key for f in part.annotation))
        self.file = new
        self.readbacks += 1
        self.res.stats["probe:typed-roundtrip"] += 1
        return "ok"

    def op_typed_sequence(self, op):
        from biotite.sequence.io import genbank as gb

        seq = self.make_seq(op["kind"], op["seq"])
        self.drop_duplicates("ORIGIN")
        st, v = call(gb.set_sequence, self.file, seq, op["start"])
        if st == "exc":
            self.fail("typed:set_sequence-raised", got=exc_name(v), msg=str(v)[:300])
        self.resync()
        self.mutations += 1
        self.invariants("typed_sequence")
        new = self.restart_file(op["medium"])
        st, back = call(gb.get_sequence, new, "gp" if op["kind"].startswith("prot") else "gb")
        if st == "exc":
            self.fail("typed:get_sequence-raised", got=exc_name(back), msg=str(back)[:300])
        if str(back) != op["seq"]:
            self.fail("typed:sequence-changed", kind=op["kind"], got=str(back)[:80], expected=op["seq"][:80])
        self.file = new
        self.readbacks += 1
        self.res.stats["probe:typed-roundtrip"] += 1
        return "ok"

    def op_typed_annotation(self, op):
        from biotite.sequence.io import genbank as gb

        self.note_features(op["features"])
        annot = make_annotation(op["features"])
        self.drop_duplicates("FEATURES")
        st, v = call(gb.set_annotation, self.file, annot)
        if st == "exc":
            self.fail("typed:set_annotation-raised", got=exc_name(v), msg=str(v)[:300])
        self.resync()
        self.mutations += 1
        self.invariants("typed_annotation")
        new = self.restart_file(op["medium"])
        st, back = call(gb.get_annotation, new)
        if st == "exc":
            self.fail("typed:get_annotation-raised", got=exc_name(back), msg=str(back)[:300])
        annot = make_annotation(op["features"], True)
        self.compare_annotation(back, annot, op["features"], "annotation")
        # include_only restricts to the given keys and changes nothing else
        keys = sorted({f["key"] for f in op["features"]})
        if keys:
            only = keys[:1]
            st, part = call(gb.get_annotation, new, only)
            if st == "exc":
                self.fail("typed:get_annotation-raised", got=exc_name(part), msg=str(part)[:300], include_only=only)
            from biotite.sequence import Annotation

            exp_part = Annotation([f for f in annot if f.key in only])
            if part != exp_part:
                self.fail("typed:annotation-changed:include-only", where="include_only", problem="include-only", include_only=only)
        self.file = new
        self.readbacks += 1
        self.res.stats["probe:typed-roundtrip"] += 1
        return "ok"

    def op_multi_record(self, op):
        """Several records written one after the other into one medium come back, in order, through MultiFile."""
        from biotite.sequence import AnnotatedSequence
        from biotite.sequence.io import genbank as gb

        files = []
        expected = []
        for rec in op["records"]:
            f = self.F()
            seq = self.make_seq(rec["kind"], rec["seq"])
            annot = make_annotation(rec["features"])
            f.set_field("DEFINITION", [rec["definition"]])
            gb.set_annotated_sequence(f, AnnotatedSequence(annot, seq, sequence_start=rec["start"]))
            files.append(f)
            expected.append((rec["definition"], rec["seq"], rec["start"], make_annotation(rec["features"], True)))
        fmt = "gp" if op["records"][0]["kind"].startswith("prot") else "gb"

        def writer(tgt):
            if isinstance(tgt, (str, os.PathLike)):
                with open(tgt, "w") as fh:
                    for f in files:
                        f.write(fh)
            else:
                for f in files:
                    f.write(tgt)

        st, multi = call(self.through, op["medium"], writer, gb.MultiFile.read, ".gb")
        if st == "exc":
            self.fail("multi:read-raised", got=exc_name(multi), msg=str(multi)[:200])
        st, recs = call(lambda: list(multi))
        if st == "exc":
            self.fail("multi:iteration-raised", got=exc_name(recs), msg=str(recs)[:200])
        if len(recs) != len(expected):
            self.fail("multi:record-count", got=len(recs), expected=len(expected))
        for i, (f, (definition, seq, start, annot)) in enumerate(zip(recs, expected)):
            st, back = call(lambda: (gb.get_definition(f), gb.get_annotated_sequence(f, fmt)))
            if st == "exc":
                self.fail("multi:record-unreadable", index=i, got=exc_name(back), msg=str(back)[:200])
            d, aseq = back
            if d != definition or str(aseq.sequence) != seq or aseq.sequence_start != start or aseq.annotation != annot:
                self.fail("multi:record-changed", index=i, got=[d, str(aseq.sequence)[:40], aseq.sequence_start], expected=[definition, seq[:40], start])
        # each record is a GenBankFile of its own: editing it through the list interface keeps its text and its view
        # consistent, like for a file read on its own (first, middle and last position)
        for i, f in enumerate(recs):
            for which in ("first", "last", "middle"):
                st, before = call(self.view, f)
                if st == "exc":
                    self.fail("multi:record-unreadable", index=i, got=exc_name(before))
                pos = {"first": 0, "last": len(before), "middle": len(before) // 2}[which]
                content = [f"edited record {i} {which}"]
                st, v = call(f.insert, pos, "COMMENT", content)
                if st == "exc":
                    self.fail("multi:record-edit-raised", index=i, at=which, got=exc_name(v), msg=str(v)[:200])
                exp = before[:pos] + [("COMMENT", content, {})] + before[pos:]
                st, live = call(self.view, f)
                if st == "exc" or live != exp:
                    self.fail("multi:record-view-after-edit", index=i, at=which, got=live[:4] if st == "ok" else exc_name(live), expected=exp[:4])
                st, re = call(lambda: self.view(self.F.read(io.StringIO(text_of(f)))))
                if st == "exc" or re != live:
                    self.fail("consistency:text-and-view-differ", after="multi_record:insert", index=i, at=which,
                              view=[x[0] for x in live], reparsed=[x[0] for x in re] if st == "ok" else exc_name(re), lines=f.lines[:4])
            self.res.stats["probe:multi-record-edited"] += 1
        self.readbacks += 1
        self.mutations += 1
        self.res.stats["probe:typed-roundtrip"] += 1
        return "ok"

    def op_typed_meta(self, op):
        from biotite.file import InvalidFileError
        from biotite.sequence.io import genbank as gb

        version = [op["version"] + ("" if op["gi"] is None else f"  GI:{op['gi']}")]
        fields = [("DEFINITION", list(op["definition"])), ("ACCESSION", [op["accession"]]), ("VERSION", version),
                  ("DBLINK", [f"{k}: {v}" for k, v in op["dblink"]]), ("SOURCE", [op["source"]])]
        for name, content in fields:
            self.drop_duplicates(name)
            st, v = call(self.file.set_field, name, content)
            if st == "exc":
                self.fail("edit:set_field-raised", got=exc_name(v), msg=str(v)[:200], name=name)
        self.resync()
        self.mutations += 1
        self.invariants("typed_meta")
        new = self.restart_file(op["medium"])
        exp = {"definition": " ".join(op["definition"]), "accession": op["accession"], "version": op["version"],
               "db_link": {k: v for k, v in op["dblink"]}, "source": op["source"]}
        for what, want in exp.items():
            st, got = call(getattr(gb, "get_" + what), new)
            if st == "exc" or got != want:
                self.fail("typed:metadata-changed", what=what, got=got if st == "ok" else exc_name(got), expected=want)
        st, got = call(gb.get_gi, new)
        if op["gi"] is None:
            if st == "ok" or not isinstance(got, InvalidFileError):
                self.fail("typed:metadata-changed", what="gi", got=got if st == "ok" else exc_name(got), expected="InvalidFileError (no GI written)")
        elif st == "exc" or got != op["gi"]:
            self.fail("typed:metadata-changed", what="gi", got=got if st == "ok" else exc_name(got), expected=op["gi"])
        self.file = new
        self.readbacks += 1
        self.res.stats["probe:typed-roundtrip"] += 1
        return "ok"

    def op_typed_locus(self, op):
        from biotite.sequence.io import genbank as gb

        self.drop_duplicates("LOCUS")
        args = (op["name"], op["length"], op["mol_type"], op["circular"], op["division"], op["date"])
        kwargs = {k: op[k] for k in ("mol_type", "division", "date") if op[k] is not None}
        if op["circular"] or op["date"] is not None:
            kwargs["is_circular"] = op["circular"]
        if len(kwargs) < 4:
            self.res.stats["probe:locus-with-defaults"] += 1
        st, v = call(gb.set_locus, self.file, op["name"], op["length"], **kwargs)
        if st == "exc":
            self.fail("typed:set_locus-raised", got=exc_name(v), msg=str(v)[:300])
        self.resync()
        self.mutations += 1
        self.invariants("typed_locus")
        new = self.restart_file(op["medium"])
        st, back = call(gb.get_locus, new)
        if st == "exc":
            self.fail("typed:get_locus-raised", got=exc_name(back), msg=str(back)[:300])
        if tuple(back) != args:
            self.fail("typed:locus-changed", got=list(back), expected=list(args))
        self.file = new
        self.readbacks += 1
        return "ok"

    def op_bad(self, op):
        before = list(self.file.lines)
        if op["what"] == "empty_name":
            st, v = call(self.file.append, "  ", ["x"])
            out = self.rejected(st, v, ValueError, "empty-field-name")
        else:
            if not self.model:
                return "skipped"
            st, v = call(self.file.__setitem__, 0, ["NAME", ["x"]])
            out = self.rejected(st, v, TypeError, "item-not-a-tuple")
        if self.file.lines != before:
            self.fail("rejection:changed-the-file", what=op["what"])
        return out


def classify_feature_problem(missing, extra):
    """Stable class of a GenBank/GFF annotation mismatch (used as the identity of known findings)."""
    if missing and not extra:
        m = missing[0]
        q = m["qual"]
        if q and all(v is None for v in q.values()):
            return "feature-with-only-valueless-qualifiers-dropped"
        return "feature-dropped"
    if missing and extra:
        m, e = missing[0], extra[0]
        if m["key"] == e["key"] and m["qual"] == e["qual"]:
            ml, el = m["locs"], e["locs"]
            if [x[:3] for x in ml] == [x[:3] for x in el]:
                lost = [(a[3], b[3]) for a, b in zip(ml, el) if a[3] != b[3]]
                single = any(a[0] == a[1] for a in ml)
                return "location-defect-changed" + (":single-base" if single else "") + ":" + ",".join(sorted({f"{a}->{b}" for a, b in lost}))
            return "location-changed"
        if m["key"] == e["key"] and m["locs"] == e["locs"]:
            return "qualifiers-changed"
        return "feature-changed"
    return "extra-feature"


# ------------------------------------------------------------------------------------------------ GFF

def norm_gff(e):
    from biotite.sequence import Location

    seqid, source, typ, start, end, score, strand, phase, attrib = e
    return (seqid, source, typ, start, end, None if score is None else float(score),
            None if strand is None else (Location.Strand.FORWARD if strand == 1 else Location.Strand.REVERSE), phase, dict(attrib or {}))


def gff_args(e):
    from biotite.sequence import Location

    seqid, source, typ, start, end, score, strand, phase, attrib = e
    return (seqid, source, typ, start, end, score, None if strand is None else (Location.Strand.FORWARD if strand == 1 else Location.Strand.REVERSE),
            phase, None if attrib is None else dict(attrib))


class GffSim(Base):
    def __init__(self, spec, keep_log):
        super().__init__(spec, keep_log)
        from biotite.sequence.io.gff import GFFFile

        self.F = GFFFile
        self.file = GFFFile()
        self.model = []
        self.directives = ["gff-version 3"]

    def view(self, f):
        # directives with their line numbers: directives() is documented to give (text, line index), and the
        # line index is part of the parsed view that must agree with the object's own text
        return [tuple(f[i]) for i in range(len(f))], [(d, int(i)) for d, i in f.directives()]

    def invariants(self, after):
        f = self.file
        st, live = call(self.view, f)
        if st == "exc":
            self.fail("view:raised", after=after, got=exc_name(live), msg=str(live)[:200])
        if live[0] != self.model:
            self.fail("model:view-differs", after=after, got=live[0][:4], expected=self.model[:4])
        if [d for d, _ in live[1]] != self.directives:
            self.fail("model:directives-differ", after=after, got=live[1], expected=self.directives)
        for d, i in live[1]:
            if not (0 <= i < len(f.lines)) or f.lines[i] != "##" + d:
                self.fail("consistency:directive-line-index", after=after, directive=d, index=i,
                          line=f.lines[i] if 0 <= i < len(f.lines) else None)
        st, re = call(lambda: self.view(self.F.read(io.StringIO(text_of(f)))))
        if st == "exc":
            self.fail("consistency:own-text-unparsable", after=after, got=exc_name(re), msg=str(re)[:200])
        if re != live:
            self.fail("consistency:text-and-view-differ", after=after, view=live[0][:4], reparsed=re[0][:4], lines=f.lines[:8])
        st, it = call(lambda: [tuple(x) for x in f])
        if st == "exc" or it != live[0]:
            self.fail("model:iteration-differs", after=after)

    def resync(self):
        self.model, d = self.view(self.file)
        self.directives = [x for x, _ in d]

    def note(self, e):
        vals = [e[0], e[1]] + [x for kv in (e[8] or {}).items() for x in kv]
        if any(c in v for v in vals for c in "%;=&,"):
            self.res.stats["probe:gff-percent-quoted"] += 1

    def op_append(self, op):
        st, v = call(self.file.append, *gff_args(op["e"]))
        if st == "exc":
            self.fail("edit:append-raised", got=exc_name(v), msg=str(v)[:200])
        self.model.append(norm_gff(op["e"]))
        self.note(op["e"])
        self.mutations += 1
        return "ok"

    def pyidx(self, i, n, inclusive=False):
        if i < 0:
            i += n
        if i < 0 or i > n or (i == n and not inclusive):
            return None
        return i

    def oor(self, st, v):
        self.res.stats["fault:index-out-of-range"] += 1
        if st == "exc" and not isinstance(v, IndexError):
            self.fail("rejection:wrong-outcome", what="index-out-of-range", got=exc_name(v))
        self.resync()
        return "oor:" + ("rejected" if st == "exc" else "accepted")

    def op_insert(self, op):
        n = len(self.model)
        j = self.pyidx(op["i"], n, inclusive=True)
        st, v = call(self.file.insert, npi(op["i"], self.step), *gff_args(op["e"]))
        if j is None:
            return self.oor(st, v)
        if st == "exc":
            self.fail("edit:insert-raised", got=exc_name(v), msg=str(v)[:200], index=op["i"], n=n)
        self.model.insert(j, norm_gff(op["e"]))
        self.note(op["e"])
        self.mutations += 1
        return "ok"

    def op_setitem(self, op):
        n = len(self.model)
        j = self.pyidx(op["i"], n)
        st, v = call(self.file.__setitem__, npi(op["i"], self.step), gff_args(op["e"]))
        if j is None:
            return self.oor(st, v)
        if st == "exc":
            self.fail("edit:setitem-raised", got=exc_name(v), msg=str(v)[:200])
        self.model[j] = norm_gff(op["e"])
        self.note(op["e"])
        self.mutations += 1
        return "ok"

    def op_delitem(self, op):
        n = len(self.model)
        j = self.pyidx(op["i"], n)
        st, v = call(self.file.__delitem__, npi(op["i"], self.step))
        if j is None:
            return self.oor(st, v)
        if st == "exc":
            self.fail("edit:delitem-raised", got=exc_name(v), msg=str(v)[:200])
        del self.model[j]
        self.mutations += 1
        return "ok"

    def op_getitem(self, op):
        n = len(self.model)
        j = self.pyidx(op["i"], n)
        st, v = call(self.file.__getitem__, op["i"])
        if j is None:
            return self.rejected(st, v, IndexError, "index-out-of-range")
        if st == "exc" or tuple(v) != self.model[j]:
            self.fail("model:get-differs", index=op["i"], got=str(v)[:200], expected=str(self.model[j])[:200])
        return "ok"

    def op_directive(self, op):
        st, v = call(self.file.append_directive, op["name"], *op["args"])
        if st == "exc":
            self.fail("edit:append_directive-raised", got=exc_name(v), msg=str(v)[:200])
        self.directives.append(op["name"] + " " + " ".join(op["args"]))
        self.mutations += 1
        return "ok"

    def op_restart(self, op):
        f = self.file
        before = self.view(f)
        st, new = call(self.through, op["medium"], f.write, self.F.read, ".gff3")
        if st == "exc":
            self.fail("restart:raised", medium=op["medium"], got=exc_name(new), msg=str(new)[:200])
        after = self.view(new)
        if after != before:
            self.fail("restart:entries-changed", medium=op["medium"], before=before[0][:4], after=after[0][:4])
        self.file = new
        self.readbacks += 1
        self.res.stats["probe:restart"] += 1
        return "ok"

    def op_typed_annotation(self, op):
        from biotite.sequence import Annotation, Feature, Location
        from biotite.sequence.io import gff

        feats = []
        for f in op["features"]:
            locs = []
            for l in f["locs"]:
                strand = Location.Strand.FORWARD if l[2] == 1 else Location.Strand.REVERSE
                if not op["stranded"]:
                    strand = Location.Strand.FORWARD
                locs.append(Location(l[0], l[1], strand))
            if len(locs) > 1:
                self.res.stats["probe:gff-multi-location-feature"] += 1
            feats.append(Feature(f["key"], locs, dict(f["qual"])))
        annot = Annotation(feats)
        f2 = self.F()
        st, v = call(gff.set_annotation, f2, annot, op["seqid"], op["source"], True)
        if st == "exc":
            self.fail("typed:set_annotation-raised", got=exc_name(v), msg=str(v)[:300])
        st, new = call(self.through, op["medium"], f2.write, self.F.read, ".gff3")
        if st == "exc":
            self.fail("restart:raised", medium=op["medium"], got=exc_name(new), msg=str(new)[:200])
        st, back = call(gff.get_annotation, new)
        if st == "exc":
            self.fail("typed:get_annotation-raised", got=exc_name(back), msg=str(back)[:300])
        if back != annot:
            got = describe_annotation(back)
            exp = describe_annotation(annot)
            missing = [e for e in exp if e not in got]
            extra = [g for g in got if g not in exp]
            cls = classify_feature_problem(missing, extra)
            self.fail("typed:annotation-changed:" + cls.split(":")[0], where="gff", problem=cls, missing=missing[:3], extra=extra[:3])
        self.readbacks += 1
        self.mutations += 1
        self.res.stats["probe:typed-roundtrip"] += 1
        return "ok"

    def op_bad(self, op):
        before = list(self.file.lines)
        e = ["chr1", "src", "gene", 1, 2, None, 1, None, None]
        if op["what"] == "empty_seqid":
            e[0] = "  "
        elif op["what"] == "empty_type":
            e[2] = ""
        else:
            e[0] = ">chr"
        st, v = call(self.file.append, *gff_args(e))
        out = self.rejected(st, v, ValueError, op["what"])
        if self.file.lines != before:
            self.fail("rejection:changed-the-file", what=op["what"])
        return out


# ------------------------------------------------------------------------------------------------ general

class GeneralSim(Base):
    def make_seq(self, kind, s):
        from biotite.sequence import NucleotideSequence, ProteinSequence

        if kind.startswith("prot"):
            return ProteinSequence(s)
        return NucleotideSequence(s, ambiguous=(kind == "nuc_amb"))

    def op_save_load_one(self, op):
        from biotite.sequence.io import general

        p = os.path.join(self.dir(), "one" + op["suffix"])
        seq = self.make_seq(op["kind"], op["seq"])
        st, v = call(general.save_sequence, p, seq)
        if st == "exc":
            self.fail("general:save_sequence-raised", suffix=op["suffix"], got=exc_name(v), msg=str(v)[:200])
        st, back = call(general.load_sequence, p)
        if st == "exc":
            self.fail("general:load_sequence-raised", suffix=op["suffix"], got=exc_name(back), msg=str(back)[:200])
        if str(back) != op["seq"]:
            self.fail("general:sequence-changed", suffix=op["suffix"], got=str(back)[:80], expected=op["seq"][:80])
        if op["suffix"] in (".gb", ".gbk", ".gp") and type(back) is not type(seq):
            # the GenBank family names the sequence type by its suffix (FASTA has to guess it from the letters)
            self.fail("general:sequence-type-changed", suffix=op["suffix"], got=type(back).__name__, expected=type(seq).__name__)
        self.mutations += 1
        self.readbacks += 1
        return "ok"

    def op_load_many_genbank(self, op):
        from biotite.sequence.io import genbank as gb
        from biotite.sequence.io import general

        p = os.path.join(self.dir(), "records" + op["suffix"])
        seqs = [self.make_seq(op["kind"], s) for s in op["seqs"]]
        with open(p, "w") as fh:
            for name, seq in zip(op["names"], seqs):
                f = gb.GenBankFile()
                f.set_field("DEFINITION", [name])
                gb.set_sequence(f, seq)
                f.write(fh)
        st, back = call(general.load_sequences, p)
        if st == "exc":
            self.fail("general:load_sequences-raised", suffix=op["suffix"], got=exc_name(back), msg=str(back)[:200])
        got = [(k, str(s), type(s).__name__) for k, s in back.items()]
        exp = [(n, s, type(q).__name__) for n, s, q in zip(op["names"], op["seqs"], seqs)]
        if got != exp:
            self.fail("general:entries-changed", suffix=op["suffix"], family="genbank",
                      got=[(k, s[:30], t) for k, s, t in got], expected=[(k, s[:30], t) for k, s, t in exp])
        self.mutations += 1
        self.readbacks += 1
        return "ok"

    def op_save_load_many(self, op):
        from biotite.sequence.io import general

        p = os.path.join(self.dir(), "many" + op["suffix"])
        seqs = {n: self.make_seq(op["kind"], s) for n, s in zip(op["names"], op["seqs"])}
        st, v = call(general.save_sequences, p, seqs)
        if st == "exc":
            self.fail("general:save_sequences-raised", suffix=op["suffix"], got=exc_name(v), msg=str(v)[:200])
        st, back = call(general.load_sequences, p)
        if st == "exc":
            self.fail("general:load_sequences-raised", suffix=op["suffix"], got=exc_name(back), msg=str(back)[:200])
        got = [(k, str(s)) for k, s in back.items()]
        exp = list(zip(op["names"], op["seqs"]))
        if got != exp:
            self.fail("general:entries-changed", suffix=op["suffix"], family="fastq" if op["suffix"] in (".fastq", ".fq") else "fasta",
                      got=[(k, s[:30]) for k, s in got], expected=[(k, s[:30]) for k, s in exp])
        self.mutations += 1
        self.readbacks += 1
        return "ok"


SIMS = {"fasta": FastaSim, "fastq": FastqSim, "genbank": GenBankSim, "gff": GffSim, "general": GeneralSim}


def execute(spec, keep_log=0):
    sim = SIMS[spec["cfg"]["format"]](spec, keep_log)
    res = sim.res
    try:
        try:
            sim.run()
        except Violation as v:
            res.violation = {"sig": v.sig, "detail": v.detail, "step": v.step}
            sim.log.add({"violation": v.sig, "step": v.step})
    finally:
        if sim.scratch:
            shutil.rmtree(sim.scratch, ignore_errors=True)
    res.nontrivial = res.n_ops >= 3 and sim.mutations >= 1 and sim.readbacks >= 1
    res.digest = sim.log.digest()
    res.log = sim.log.tail if keep_log else None
    return res


def simplify(spec):
    import copy

    for i, op in enumerate(spec["ops"]):
        if "features" in op:
            if len(op["features"]) > 1:
                for j in range(len(op["features"])):
                    s = copy.deepcopy(spec)
                    del s["ops"][i]["features"][j]
                    yield s
            for j, f in enumerate(op["features"]):
                for q in list(f["qual"]):
                    if q == "ID":
                        continue
                    s = copy.deepcopy(spec)
                    del s["ops"][i]["features"][j]["qual"][q]
                    yield s
                if len(f["locs"]) > 1:
                    for l in range(len(f["locs"])):
                        s = copy.deepcopy(spec)
                        del s["ops"][i]["features"][j]["locs"][l]
                        yield s
                for l, loc in enumerate(f["locs"]):
                    if loc[3]:
                        s = copy.deepcopy(spec)
                        s["ops"][i]["features"][j]["locs"][l][3] = []
                        yield s
        if "seq" in op and len(op["seq"]) > 2 and "scores" not in op:
            s = copy.deepcopy(spec)
            s["ops"][i]["seq"] = op["seq"][:2]
            yield s
        if "seq" in op and "scores" in op and len(op["seq"]) > 2 and op["op"] != "bad":
            s = copy.deepcopy(spec)
            h = max(1, len(op["seq"]) // 2)
            s["ops"][i]["seq"] = op["seq"][:h]
            s["ops"][i]["scores"] = op["scores"][:h]
            yield s
        if op.get("medium") not in (None, "memory"):
            s = copy.deepcopy(spec)
            s["ops"][i]["medium"] = "memory"
            yield s
        if op.get("sub"):
            s = copy.deepcopy(spec)
            s["ops"][i]["sub"] = None
            yield s
        if "content" in op and len(op["content"]) > 1:
            s = copy.deepcopy(spec)
            s["ops"][i]["content"] = op["content"][:1]
            yield s
        if "e" in op and op["e"][8]:
            s = copy.deepcopy(spec)
            s["ops"][i]["e"][8] = None
            yield s
