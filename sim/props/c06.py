"""C06 - CIF text layer returns every string table unchanged; containers are mutable mappings.

The CIF / BinaryCIF file object is simulated as a three-level key/value store whose durable state is
its serialised form and whose volatile state is the per-element lazy-parse cache. A seeded history of
mapping operations, partial touches and *restarts from the durable form* (through simulated media) is
checked step by step against a dict model."""

import io
import os
import shutil
import tempfile
import warnings

import numpy as np

from ..core import EventLog, RunResult, Violation, call, exc_name

PROP = "C06"
TIERS = {"quick": 20000, "thorough": 1000000}
WALL_CAP = {"quick": 900, "thorough": 6 * 3600}
SHRINK_BUDGET = 250

COMPONENTS = {
    "real": ["biotite.structure.io.pdbx.cif (CIFFile/CIFBlock/CIFCategory/CIFColumn, _escape, tokeniser)",
             "biotite.structure.io.pdbx.bcif (BinaryCIFFile/Block/Category/Column/Data)",
             "biotite.structure.io.pdbx.component (_HierarchicalContainer lazy (de)serialisation)",
             "biotite.structure.io.pdbx.encoding (default uncompressed encodings, compiled)", "msgpack",
             "real files in a run-private scratch directory, io.StringIO/BytesIO, NamedTemporaryFile wrappers"],
    "stub": ["storage medium chosen by the scheduler (memory stream / path / temp-file wrapper / TextIOWrapper with universal newlines)"],
}
RULE = ("Each run: flavour (text|binary), then up to 40 operations on one file object: set/replace/delete/get at file, block, "
        "category and column level, touches (partial lazy parsing), protocol queries, equality, rejected operations and restarts "
        "(deserialize(serialize()), write/read through a medium, sub-tree restart). Cell values come from an awkward-string pool. "
        "Non-trivial: >= 3 operations with at least one mutation and one restart or deep check; distinct = distinct (cfg, ops) hashes.")
ASSUMPTIONS = [
    "names of blocks/categories/columns contain no '.', no blank and no leading underscore (identifier-like names plus hyphens, brackets, slashes, leading digits)",
    "a *present* cell equal to '.' or '?' is not generated (the text flavour expresses mask states with them)",
    "cell strings are printable characters plus blank, tab and line feed; a value containing a line break directly followed by ';' is excluded (CIF 1.1 text fields cannot express it)",
]
PROBES = ["lazy-element-serialised-unparsed", "restart-with-mixed-parsed-siblings", "looped-awkward-first-in-line",
          "single-row-awkward", "multiline-value", "rejected-op", "restart-refused-invalid-store", "eq-negative"]

BLOCKS = ["b1", "1ABC", "blk_x", "B-2", "", "B1", "run#1", "run#2"]  # the empty name (a bare "data_" header) is a name too
# mmCIF data names: identifier-like, but also hyphens, brackets, slashes (e.g. atom_site.aniso_B[1][1]); never a dot or a blank
CATS = ["atom_site", "cat", "entry", "x_y", "my-cat", "tab[1]", "9lives", "", "CAT", "Entry"]  # keys are case-sensitive
COLS = ["id", "val", "c3", "label_x", "e", "aniso_B[1][1]", "pdbx-x", "a/b%", "", "ID", "Val"]

AWKWARD = [
    "a b", " a", "a ", "a\tb", "\tq", "it's", 'say "hi"', "'", '"', "''", '""', "'a'", '"a"', "'a", "a'", 'a"', "a' b", 'a" b',
    "it's \"both\"", "a'b\"c", "_lead", "_atom_site.id", "#hash", "#", ";semi", ";", "$dollar", "[br]", "]", "[",
    "data_x", "data_", "loop_", "save_x", "save_", "global_", "stop_", "DATA_x", "LOOP_", "", "line1\nline2", "a\n", "\nb",
    "x\n#y", "x\n\ny", "a\n b", "' '", "a #b", "a;b", "a_b", "a.b", ".5", "?x", "..", "??", "-", "1.0", "N/A", "a  b",
    "'a' 'b'", "x' y' z", 'x" y" z', "\\", "a\\'b", "loop_ x", "data_x y", ";a b", "#a b", "_a b", "$a b", "[a] b",
]
PLAIN = ["A", "CA", "1", "42", "ALA", "0.123", "HETATM", "x1", "N", "abc"]
# what would be line folding in CIF 1.1 (a text field opening with a backslash, lines ending in one) is plain text here
AWKWARD += ["\\\nfoo", "a\\\nb", "\\\n", "\\\nfirst\\\nsecond", "C:\\temp\\x", "end\\"]
AWKWARD += ["x" * 300, "a b " * 60, "'" * 7, "line\n" * 12 + "end", " " * 5, "\t\t", "a" + " " * 40 + "b"]
# the special characters at the END of a value, and mask symbols padded with blanks (neither is a mask state)
TAILS = ["C#", "x##", "a;", "a_", "a$", "a[", "a]", "a.", "a?", "a'", 'a"', "n#\n", ". ", "? ", " .", " ?", ".  ", "data_", "#", ";"]
AWKWARD += TAILS


def gen_cell(rng, p_awk):
    r = rng.random()
    if r < 0.08:
        return ["", 1]  # inapplicable '.'
    if r < 0.16:
        return ["", 2]  # missing '?'
    if r < 0.16 + p_awk:
        if rng.random() < 0.5:
            return [rng.choice(AWKWARD), 0]
        return [random_awkward(rng), 0]
    return [rng.choice(PLAIN), 0]


ATOMS = ["a", "B", "1", " ", " ", "\t", "'", '"', "_", "#", ";", "$", "[", "]", ".", "?", "\n", "-", "\\", "data_", "loop_", "save_",
         "global_", "stop_", "\u00e9", "\u00b5"]


def random_awkward(rng):
    """A random composition of awkward atoms; only what CIF 1.1 cannot express at all is excluded."""
    while True:
        v = "".join(rng.choice(ATOMS) for _ in range(rng.randint(1, 6)))
        if v in (".", "?"):
            continue  # would be a mask state
        if "\n;" in v:
            continue  # a text field cannot contain a line that starts with ';'
        return v


def gen_table(rng, p_awk, rows=None, ncols=None):
    rows = rows or rng.choice([1, 1, 2, 3, 3, 4, 6, 6, 17, 40])
    ncols = ncols or rng.randint(1, 5)
    names = rng.sample(COLS, ncols)
    cells = {n: [gen_cell(rng, p_awk) for _ in range(rows)] for n in names}
    # where a value lands matters as much as what it is: the very last cell of a table ends the category's text, the
    # very first one follows the header directly
    if p_awk and rng.random() < 0.3:
        cells[names[-1]][-1] = [rng.choice(TAILS if rng.random() < 0.6 else AWKWARD), 0]
    if p_awk and rng.random() < 0.15:
        cells[names[0]][0] = [rng.choice(AWKWARD), 0]
    return {"cols": names, "rows": rows, "cells": cells}


def generate(rng):
    flavour = rng.choice(["text", "text", "bin"])
    p_awk = rng.choice([0.0, 0.1, 0.3, 0.6])
    cfg = {"flavour": flavour, "p_awk": p_awk}
    ops = []
    # generation-time sketch (names only) so that most ops hit existing keys
    sk = {}
    n = rng.randint(3, 40)
    faulty = rng.random() < 0.4

    def some_block():
        return rng.choice(list(sk)) if sk and rng.random() < 0.9 else rng.choice(BLOCKS)

    def some_cat(b):
        cs = sk.get(b, {})
        return rng.choice(list(cs)) if cs and rng.random() < 0.9 else rng.choice(CATS)

    def some_col(b, c):
        cols = sk.get(b, {}).get(c, [])
        return rng.choice(cols) if cols and rng.random() < 0.85 else rng.choice(COLS)

    while len(ops) < n:
        r = rng.random()
        if not sk or r < 0.08:
            b = rng.choice(BLOCKS)
            cats = {}
            for c in rng.sample(CATS, rng.randint(0, 3)):
                cats[c] = gen_table(rng, p_awk)
            ops.append({"op": "set_block", "b": b, "cats": cats})
            sk[b] = {c: list(t["cols"]) for c, t in cats.items()}
        elif r < 0.28:
            b = some_block()
            c = rng.choice(CATS) if rng.random() < 0.6 else some_cat(b)
            t = gen_table(rng, p_awk)
            ops.append({"op": "set_cat", "b": b, "c": c, "table": t, "how": rng.choice(["dict", "incremental"])})
            if b in sk:
                sk[b][c] = list(t["cols"])
        elif r < 0.40:
            b = some_block()
            c = some_cat(b)
            col = some_col(b, c) if rng.random() < 0.5 else rng.choice(COLS)
            rows = rng.choice([1, 2, 3, 4, 6])
            ops.append({"op": "set_col", "b": b, "c": c, "col": col, "cells": [gen_cell(rng, p_awk) for _ in range(rows)],
                        "rows": "match" if rng.random() < (0.85 if not faulty else 0.6) else "own",
                        "how": rng.choice(["list", "array", "column", "column_mask", "scalar", "tuple", "column_tuple", "column_data"])})
            if b in sk and c in sk[b] and col not in sk[b][c]:
                sk[b][c].append(col)
        elif r < 0.46:
            b = some_block()
            c = some_cat(b)
            ops.append({"op": "del_col", "b": b, "c": c, "col": some_col(b, c)})
        elif r < 0.50:
            b = some_block()
            c = some_cat(b)
            ops.append({"op": "del_cat", "b": b, "c": c})
            sk.get(b, {}).pop(c, None)
        elif r < 0.53:
            b = some_block()
            ops.append({"op": "del_block", "b": b})
            sk.pop(b, None)
        elif r < 0.62:
            b = some_block()
            ops.append({"op": "touch_cat", "b": b, "c": some_cat(b)})
        elif r < 0.66:
            ops.append({"op": "touch_block", "b": some_block()})
        elif r < 0.72:
            b = some_block()
            c = some_cat(b)
            ops.append({"op": "touch_col", "b": b, "c": c, "col": some_col(b, c)})
        elif r < 0.78:
            ops.append({"op": "protocol", "level": rng.choice(["file", "block", "cat"]), "b": some_block(), "c": rng.choice(CATS),
                        "what": rng.choice(["len", "iter", "contains", "keys", "items", "get_default", "values", "block_property"]),
                        "key": rng.choice(BLOCKS + CATS + COLS)})
        elif r < 0.90:
            ops.append({"op": "restart", "how": rng.choice(["memory", "memory", "stream", "shortread", "path", "pathobj", "tempfile", "wrapper", "subtree_block", "subtree_cat", "str"]),
                        "b": some_block(), "c": rng.choice(CATS)})
        elif r < 0.94:
            ops.append({"op": "check_all"})
        elif r < 0.96:
            ops.append({"op": "eq"})
        elif r < 0.973:
            b = some_block()
            ops.append({"op": "mixin", "what": rng.choice(["pop", "popitem", "clear", "update", "setdefault"]),
                        "level": rng.choice(["file", "block", "cat"]), "b": b, "c": some_cat(b), "key": rng.choice(COLS + CATS)})
        elif r < 0.98:
            ops.append({"op": "bad_assign", "level": rng.choice(["file", "block"]), "b": some_block(), "c": rng.choice(CATS)})
        else:
            # re-key an existing element: the object stored under one key is stored under another key (of the same or of
            # another container) and removed from the old place, as with any mapping
            level = rng.choice(["block", "cat", "cat", "col", "col"])
            b = some_block()
            c = some_cat(b)
            op = {"op": "move", "level": level, "b": b, "c": c, "col": some_col(b, c), "keep": level == "col" and rng.random() < 0.5,
                  "b2": rng.choice(BLOCKS) if rng.random() < 0.5 else some_block(), "c2": rng.choice(CATS), "col2": rng.choice(COLS)}
            ops.append(op)
            if level == "block" and b in sk and op["b2"] != b:
                sk[op["b2"]] = sk.pop(b)
            elif level == "cat" and b in sk and c in sk[b]:
                tb = b if rng.random() < 0.6 else op["b2"]
                op["b2"] = tb
                if tb in sk and (tb, op["c2"]) != (b, c):
                    sk[tb][op["c2"]] = sk[b].pop(c)
            elif level == "col" and b in sk and c in sk[b] and op["col"] in sk[b][c] and op["col2"] != op["col"]:
                cols = sk[b][c]
                if op["col2"] not in cols:
                    cols.append(op["col2"])
                if not op["keep"]:
                    cols.remove(op["col"])
    ops.append({"op": "check_all"})
    return {"cfg": cfg, "ops": ops}


# ================================================================================================


def cell_str(cell):
    v, m = cell
    return v if m == 0 else ("." if m == 1 else "?")


class Store:
    """Thin flavour adapter around the real classes."""

    def __init__(self, flavour):
        import biotite.structure.io.pdbx as pdbx

        self.flavour = flavour
        if flavour == "text":
            self.File, self.Block, self.Category, self.Column, self.Data = (
                pdbx.CIFFile, pdbx.CIFBlock, pdbx.CIFCategory, pdbx.CIFColumn, pdbx.CIFData)
        else:
            self.File, self.Block, self.Category, self.Column, self.Data = (
                pdbx.BinaryCIFFile, pdbx.BinaryCIFBlock, pdbx.BinaryCIFCategory, pdbx.BinaryCIFColumn, pdbx.BinaryCIFData)

    def column(self, cells, how):
        strs = [cell_str(c) for c in cells]
        masks = [c[1] for c in cells]
        anym = any(masks)
        if self.flavour == "bin":
            data = [c[0] if c[1] == 0 else "" for c in cells]
            if anym or how == "column_mask":
                return self.Column(np.array(data, dtype=str), np.array(masks, dtype=np.uint8))
            if how == "list":
                return data
            if how == "tuple":
                return tuple(data)  # documented as array_like
            if how == "column_tuple":
                return self.Column(tuple(data))
            if how == "array":
                return np.array(data, dtype=str)
            if how == "scalar" and len(data) == 1:
                return data[0]
            if how == "column_data":
                return self.Column(self.Data(np.array(data, dtype=str)))  # the documented "formal way"
            return self.Column(np.array(data, dtype=str))
        if how == "column_data":
            # Column(Data(...)) without a mask: '.' and '?' entries stand for the mask states, as in a list
            return self.Column(self.Data(strs))
        if how == "list":
            return strs
        if how == "tuple":
            return tuple(strs)
        if how == "column_tuple":
            return self.Column(tuple(strs), tuple(masks)) if anym else self.Column(tuple(strs))
        if how == "array":
            return np.array(strs, dtype=str)
        if how == "scalar" and len(strs) == 1:
            return strs[0]
        if how == "column_mask" and anym:
            # (an explicit all-PRESENT mask is not generated: CIFColumn keeps it, a re-parsed column has
            #  mask None, and biotite's == distinguishes the two; the statement does not cover that)
            # (the data under a masked cell is given as the mask symbol, as a parse would produce it; == compares
            #  the raw data arrays, and what lies under a masked cell is outside the statement)
            return self.Column(strs, masks)
        return self.Column(strs)

    def category(self, table, how="dict"):
        if how == "dict":
            return self.Category({n: self.column(table["cells"][n], "column") for n in table["cols"]})
        cat = self.Category()
        for n in table["cols"]:
            cat[n] = self.column(table["cells"][n], "list" if self.flavour == "text" else "column")
        return cat


def observe_column(col):
    arr = col.as_array(str)
    vals = [str(x) for x in arr.tolist()]
    m = col.mask
    if m is None:
        masks = [0] * len(vals)
    else:
        masks = [int(x) for x in np.asarray(m.array).tolist()]
    if any(masks):
        # masked_value replaces the '.'/'?' substitution for masked elements and nothing else. (A one-character
        # value is used: with a narrow string dtype numpy truncates longer replacements, e.g. 'MV' -> 'M' in a U1
        # column; the statement speaks of the '.'/'?' mask states only, so that is not claimed.)
        alt = [str(x) for x in col.as_array(str, masked_value="~").tolist()]
        exp_alt = ["~" if m_ else v for v, m_ in zip(vals, masks)]
        if alt != exp_alt:
            raise Violation("view:as_array-masked_value", {"got": alt[:8], "expected": exp_alt[:8]})
    # the documented parameter is dtype-like: other spellings of the string type give the same array
    for spelling in (np.str_, "U", "str", np.dtype(str)):
        other = [str(x) for x in col.as_array(spelling).tolist()]
        if other != vals:
            raise Violation("view:as_array-dtype-spelling", {"dtype": repr(spelling), "got": other[:8], "expected": vals[:8]})
    if len(vals) == 1:
        # the scalar view of a single-row column must agree with the array view
        item = col.as_item()
        if str(item) != vals[0]:
            raise Violation("view:as_item-differs-from-as_array", {"as_item": str(item), "as_array": vals[0]})
    if len(col) != len(vals):
        raise Violation("view:column-len", {"len": len(col), "values": len(vals)})
    return vals, masks


class Sim:
    def __init__(self, spec, keep_log):
        self.spec = spec
        self.flavour = spec["cfg"]["flavour"]
        self.S = Store(self.flavour)
        self.res = RunResult()
        self.log = EventLog(spec.get("seed", "replay"))
        self.log.keep = keep_log
        self.model = {}  # block -> {cat -> {col -> [cells]}} (dicts keep insertion order)
        self.file = self.S.File()
        self.step = -1
        self.scratch = None
        self.mutations = 0
        self.deep = 0
        self.parsed = set()  # blocks known to be held as parsed objects (probe bookkeeping only)

    def fail(self, sig, **detail):
        detail["flavour"] = self.flavour
        raise Violation(sig, detail, self.step)

    # ---- model helpers ----------------------------------------------------------------------------------
    def cat_valid(self, cat):
        if len(cat) == 0:
            return False
        lens = {len(v) for v in cat.values()}
        return len(lens) == 1 and 0 not in lens

    def store_valid(self):
        for b in self.model.values():
            for c in b.values():
                if not self.cat_valid(c):
                    return False
        return True

    # ---- deep comparison ----------------------------------------------------------------------------------
    def compare_category(self, cat_obj, mcat, where):
        st, keys = call(lambda: list(cat_obj.keys()))
        if st == "exc":
            self.fail("view:category-keys-raised", where=where, got=exc_name(keys))
        if keys != list(mcat.keys()):
            self.fail("view:column-names", where=where, got=keys, expected=list(mcat.keys()))
        if self.cat_valid(mcat):
            st, rc = call(lambda: cat_obj.row_count)
            exp_rc = len(next(iter(mcat.values())))
            if st == "exc" or rc != exp_rc:
                self.fail("view:row-count", where=where, got=rc if st == "ok" else exc_name(rc), expected=exp_rc)
        for cn, cells in mcat.items():
            st, col = call(lambda: cat_obj[cn])
            if st == "exc":
                self.fail("view:column-get-raised", where=where, col=cn, got=exc_name(col))
            st, obs = call(observe_column, col)
            if st == "exc":
                self.fail("view:column-read-raised", where=where, col=cn, got=exc_name(obs), msg=str(obs)[:200])
            vals, masks = obs
            exp_vals = [cell_str(c) for c in cells]
            exp_masks = [c[1] for c in cells]
            if vals != exp_vals:
                bad = [i for i in range(min(len(vals), len(exp_vals))) if vals[i] != exp_vals[i]]
                first = bad[0] if bad else None
                self.fail("table:values-changed", where=where, col=cn, got=vals, expected=exp_vals,
                          value=exp_vals[first] if first is not None else None,
                          value_class=classify_value(exp_vals[first]) if first is not None else "row-count",
                          layout="single" if len(exp_vals) == 1 else "looped",
                          position=("first" if list(mcat.keys()).index(cn) == 0 else "later"))
            if masks != exp_masks:
                self.fail("table:masks-changed", where=where, col=cn, got=masks, expected=exp_masks)

    def check_all(self):
        self.deep += 1
        f = self.file
        st, keys = call(lambda: list(f.keys()))
        if st == "exc" or keys != list(self.model.keys()):
            self.fail("view:block-names", got=keys if st == "ok" else exc_name(keys), expected=list(self.model.keys()))
        for bn, mb in self.model.items():
            st, blk = call(lambda: f[bn])
            if st == "exc":
                self.fail("view:block-get-raised", block=bn, got=exc_name(blk), msg=str(blk)[:200])
            st, ckeys = call(lambda: list(blk.keys()))
            if st == "exc" or ckeys != list(mb.keys()):
                self.fail("view:category-names", block=bn, got=ckeys if st == "ok" else exc_name(ckeys), expected=list(mb.keys()))
            for cn, mc in mb.items():
                st, cat = call(lambda: blk[cn])
                if st == "exc":
                    cause = cat.__cause__ or cat.__context__
                    self.fail("view:category-get-raised", block=bn, cat=cn, got=exc_name(cat), msg=str(cat)[:200],
                              cause=exc_name(cause) if cause else None, **self.describe_table(mc))
                self.compare_category(cat, mc, f"{bn}/{cn}")

    def describe_table(self, mc):
        """Classify the awkward content of a category for findings (which value classes, which layout)."""
        rows = max((len(v) for v in mc.values()), default=0)
        classes = sorted({classify_value(cell_str(c)) for cells in mc.values() for c in cells} - {"plain"})
        return {"layout": "single" if rows == 1 else "looped", "value_classes": classes,
                "table": {k: [cell_str(c) for c in v] for k, v in mc.items()}}

    def shallow(self):
        st, keys = call(lambda: list(self.file))
        if st == "exc" or keys != list(self.model.keys()):
            self.fail("view:block-names", got=keys if st == "ok" else exc_name(keys), expected=list(self.model.keys()))
        st, n = call(len, self.file)
        if st == "exc" or n != len(self.model):
            self.fail("view:file-len", got=n if st == "ok" else exc_name(n), expected=len(self.model))

    def probe_table(self, cols, cells):
        if not cols:
            return
        rows = len(cells[cols[0]])
        for j, n in enumerate(cols):
            for cell in cells[n]:
                k = classify_value(cell_str(cell))
                if k in ("plain", "mask"):
                    continue
                if k == "linebreak":
                    self.res.stats["probe:multiline-value"] += 1
                if rows == 1:
                    self.res.stats["probe:single-row-awkward"] += 1
                elif j == 0:
                    self.res.stats["probe:looped-awkward-first-in-line"] += 1

    def note_restart(self):
        """Called when the whole file is about to be serialised: which lazy states does serialisation meet?"""
        names = set(self.model.keys())
        unparsed = names - self.parsed
        if unparsed:
            self.res.stats["probe:lazy-element-serialised-unparsed"] += 1
            if names & self.parsed:
                self.res.stats["probe:restart-with-mixed-parsed-siblings"] += 1

    # ---- ops ---------------------------------------------------------------------------------------------------
    def run(self):
        with warnings.catch_warnings():
            warnings.simplefilter("ignore")
            for i, op in enumerate(self.spec["ops"]):
                self.step = i
                self.res.n_ops += 1
                self.res.stats["op:" + op["op"]] += 1
                out = getattr(self, "op_" + op["op"])(op)
                self.res.features.add((self.flavour, op["op"], op.get("how") or op.get("what") or op.get("level"), out))
                self.log.add({"i": i, "op": op["op"], "out": out, "blocks": list(self.model.keys())})
                self.shallow()

    def get_block(self, b, op):
        st, blk = call(lambda: self.file[b])
        if st == "ok":
            self.parsed.add(b)
        if b not in self.model:
            if st == "ok" or not isinstance(blk, KeyError):
                self.fail("mapping:missing-key-not-KeyError", level="file", op=op, got="ok" if st == "ok" else exc_name(blk))
            return None
        if st == "exc":
            self.fail("view:block-get-raised", block=b, got=exc_name(blk), msg=str(blk)[:200])
        return blk

    def get_cat(self, b, c, op):
        blk = self.get_block(b, op)
        if blk is None:
            return None, None
        st, cat = call(lambda: blk[c])
        if c not in self.model[b]:
            if st == "ok" or not isinstance(cat, KeyError):
                self.fail("mapping:missing-key-not-KeyError", level="block", op=op, got="ok" if st == "ok" else exc_name(cat))
            return blk, None
        if st == "exc":
            cause = cat.__cause__ or cat.__context__
            self.fail("view:category-get-raised", block=b, cat=c, got=exc_name(cat), msg=str(cat)[:200],
                      cause=exc_name(cause) if cause else None, **self.describe_table(self.model[b][c]))
        return blk, cat

    def op_set_block(self, op):
        S = self.S
        b = op["b"]
        cats = op["cats"]
        st, blk = call(lambda: S.Block({c: S.category(t) for c, t in cats.items()}))
        if st == "exc":
            self.fail("mapping:block-construction-raised", got=exc_name(blk), msg=str(blk)[:200])
        st, val = call(self.file.__setitem__, b, blk)
        if st == "exc":
            self.fail("mapping:set-raised", level="file", got=exc_name(val), msg=str(val)[:200])
        self.model[b] = {c: {n: [list(x) for x in t["cells"][n]] for n in t["cols"]} for c, t in cats.items()}
        self.mutations += 1
        self.parsed.add(b)
        for t in cats.values():
            self.probe_table(t["cols"], t["cells"])
        return "ok"

    def op_set_cat(self, op):
        S = self.S
        b, c, t = op["b"], op["c"], op["table"]
        blk = self.get_block(b, "set_cat")
        if blk is None:
            return "no-block"
        st, cat = call(S.category, t, op["how"])
        if st == "exc":
            self.fail("mapping:category-construction-raised", got=exc_name(cat), msg=str(cat)[:200])
        st, val = call(blk.__setitem__, c, cat)
        if st == "exc":
            self.fail("mapping:set-raised", level="block", got=exc_name(val), msg=str(val)[:200])
        self.model[b][c] = {n: [list(x) for x in t["cells"][n]] for n in t["cols"]}
        self.mutations += 1
        self.probe_table(t["cols"], t["cells"])
        return "ok"

    def op_set_col(self, op):
        b, c, col = op["b"], op["c"], op["col"]
        blk, cat = self.get_cat(b, c, "set_col")
        if cat is None:
            return "no-cat"
        mc = self.model[b][c]
        cells = [list(x) for x in op["cells"]]
        if op["rows"] == "match" and len(mc):
            want = len(next(iter(mc.values())))
            while len(cells) < want:
                cells.append(list(cells[len(cells) % len(op["cells"])]))
            cells = cells[:want]
        elif op["rows"] == "own":
            self.res.stats["fault:ragged-column-set"] += 1
        st, obj = call(self.S.column, cells, op["how"])
        if st == "exc":
            self.fail("mapping:column-construction-raised", got=exc_name(obj), msg=str(obj)[:200])
        st, val = call(cat.__setitem__, col, obj)
        if st == "exc":
            self.fail("mapping:set-raised", level="category", got=exc_name(val), msg=str(val)[:200])
        mc[col] = cells
        self.mutations += 1
        self.probe_table(list(mc.keys()), mc)
        return "ok"

    def _expect_keyerror(self, st, val, level, op):
        if st == "ok" or not isinstance(val, KeyError):
            self.fail("mapping:missing-key-not-KeyError", level=level, op=op, got="ok" if st == "ok" else exc_name(val))
        self.res.stats["probe:rejected-op"] += 1
        self.res.stats["fault:missing-key"] += 1
        return "KeyError"

    def op_del_col(self, op):
        b, c, col = op["b"], op["c"], op["col"]
        blk, cat = self.get_cat(b, c, "del_col")
        if cat is None:
            return "no-cat"
        mc = self.model[b][c]
        st, val = call(cat.__delitem__, col)
        if col not in mc:
            if self.flavour == "text" and len(mc) == 1:
                # the text category refuses before looking at the key
                if st == "ok" or not isinstance(val, (KeyError, ValueError)):
                    self.fail("mapping:missing-key-not-KeyError", level="category", op="del", got="ok" if st == "ok" else exc_name(val))
                return "rejected"
            return self._expect_keyerror(st, val, "category", "del")
        if self.flavour == "text" and len(mc) == 1:
            if st == "ok" or not isinstance(val, ValueError):
                self.fail("mapping:last-column-delete-not-refused", got="ok" if st == "ok" else exc_name(val))
            self.res.stats["probe:rejected-op"] += 1
            self.res.stats["fault:last-column-delete"] += 1
            return "ValueError"
        if st == "exc":
            self.fail("mapping:delete-raised", level="category", got=exc_name(val), msg=str(val)[:200])
        del mc[col]
        self.mutations += 1
        return "ok"

    def op_del_cat(self, op):
        b, c = op["b"], op["c"]
        blk = self.get_block(b, "del_cat")
        if blk is None:
            return "no-block"
        st, val = call(blk.__delitem__, c)
        if c not in self.model[b]:
            return self._expect_keyerror(st, val, "block", "del")
        if st == "exc":
            self.fail("mapping:delete-raised", level="block", got=exc_name(val), msg=str(val)[:200])
        del self.model[b][c]
        self.mutations += 1
        return "ok"

    def op_move(self, op):
        """Store an element that is already in the store under another key and delete it from the old place."""
        level = op["level"]
        f = self.file
        if level == "block":
            b, b2 = op["b"], op["b2"]
            if b not in self.model or b2 == b:
                return "skipped"
            blk = self.get_block(b, "move")
            st, v = call(f.__setitem__, b2, blk)
            if st == "exc":
                self.fail("mapping:set-raised", level="file", what="existing block under another key", got=exc_name(v), msg=str(v)[:200])
            st, v = call(f.__delitem__, b)
            if st == "exc":
                self.fail("mapping:delete-raised", level="file", got=exc_name(v), msg=str(v)[:200])
            self.model[b2] = self.model.pop(b)
            self.parsed.discard(b)
            self.parsed.add(b2)
        elif level == "cat":
            b, c, b2, c2 = op["b"], op["c"], op["b2"], op["c2"]
            if b not in self.model or c not in self.model[b] or b2 not in self.model or (b2, c2) == (b, c):
                return "skipped"
            blk, cat = self.get_cat(b, c, "move")
            blk2 = self.get_block(b2, "move")
            st, v = call(blk2.__setitem__, c2, cat)
            if st == "exc":
                self.fail("mapping:set-raised", level="block", what="existing category under another key", got=exc_name(v), msg=str(v)[:200])
            st, v = call(blk.__delitem__, c)
            if st == "exc":
                self.fail("mapping:delete-raised", level="block", got=exc_name(v), msg=str(v)[:200])
            table = self.model[b].pop(c)
            self.model[b2][c2] = table
        else:
            b, c, col, col2 = op["b"], op["c"], op["col"], op["col2"]
            if b not in self.model or c not in self.model[b] or col not in self.model[b][c] or col2 == col:
                return "skipped"
            blk, cat = self.get_cat(b, c, "move")
            st, obj = call(lambda: cat[col])
            if st == "exc":
                self.fail("view:column-read-raised", got=exc_name(obj), msg=str(obj)[:200])
            st, v = call(cat.__setitem__, col2, obj)
            if st == "exc":
                self.fail("mapping:set-raised", level="category", what="existing column under another key", got=exc_name(v), msg=str(v)[:200])
            m = self.model[b][c]
            if op.get("keep"):
                # the same column object under two names (columns have no mutating methods, so the two entries cannot
                # influence each other): both must be written, and both must come back
                m[col2] = [list(x) for x in m[col]]
                self.res.stats["op:column-stored-under-two-names"] += 1
            else:
                st, v = call(cat.__delitem__, col)
                if st == "exc":
                    self.fail("mapping:delete-raised", level="category", got=exc_name(v), msg=str(v)[:200])
                cells = m.pop(col)
                m[col2] = cells  # an existing key keeps its position, a new one goes to the end (dict semantics)
        self.mutations += 1
        self.res.stats["op:move-" + level] += 1
        return "ok"

    def op_del_block(self, op):
        b = op["b"]
        st, val = call(self.file.__delitem__, b)
        self.parsed.discard(b)
        if b not in self.model:
            return self._expect_keyerror(st, val, "file", "del")
        if st == "exc":
            self.fail("mapping:delete-raised", level="file", got=exc_name(val), msg=str(val)[:200])
        del self.model[b]
        self.mutations += 1
        return "ok"

    def op_touch_block(self, op):
        blk = self.get_block(op["b"], "touch")
        if blk is None:
            return "KeyError"
        st, keys = call(lambda: list(blk))
        if st == "exc" or keys != list(self.model[op["b"]].keys()):
            self.fail("view:category-names", block=op["b"], got=keys if st == "ok" else exc_name(keys), expected=list(self.model[op["b"]].keys()))
        return "ok"

    def op_touch_cat(self, op):
        blk, cat = self.get_cat(op["b"], op["c"], "touch")
        if cat is None:
            return "KeyError"
        self.compare_category(cat, self.model[op["b"]][op["c"]], f"{op['b']}/{op['c']}")
        return "ok"

    def op_touch_col(self, op):
        blk, cat = self.get_cat(op["b"], op["c"], "touch")
        if cat is None:
            return "KeyError"
        mc = self.model[op["b"]][op["c"]]
        st, col = call(lambda: cat[op["col"]])
        if op["col"] not in mc:
            return self._expect_keyerror(st, col, "category", "get")
        if st == "exc":
            self.fail("view:column-get-raised", col=op["col"], got=exc_name(col))
        self.compare_category(cat, mc, f"{op['b']}/{op['c']}")
        return "ok"

    def op_protocol(self, op):
        level = op["level"]
        if level == "file":
            obj, m = self.file, self.model
        elif level == "block":
            obj = self.get_block(op["b"], "protocol")
            if obj is None:
                return "KeyError"
            m = self.model[op["b"]]
        else:
            _, obj = self.get_cat(op["b"], op["c"], "protocol")
            if obj is None:
                return "KeyError"
            m = self.model[op["b"]][op["c"]]
        what = op["what"]
        key = op["key"]
        if what == "len":
            st, v = call(len, obj)
            exp = len(m)
        elif what == "iter":
            st, v = call(lambda: list(iter(obj)))
            exp = list(m.keys())
        elif what == "keys":
            st, v = call(lambda: list(obj.keys()))
            exp = list(m.keys())
        elif what == "contains":
            key = key if self_rng_bool(key, m) else (next(iter(m)) if m else key)
            st, v = call(lambda: key in obj)
            exp = key in m
        elif what == "items":
            st, v = call(lambda: [k for k, _ in obj.items()])
            exp = list(m.keys())
            if level != "cat" and not all(self.cat_ok_for_read(level, op, k) for k in m):
                return "skipped"
        elif what == "values":
            st, v = call(lambda: len(list(obj.values())))
            exp = len(m)
        elif what == "block_property":
            if level != "file":
                return "skipped"
            st, v = call(lambda: list(obj.block.keys()))
            if len(m) != 1:
                if st == "ok" or not isinstance(v, ValueError):
                    self.fail("mapping:block-property-with-several-blocks", got="ok" if st == "ok" else exc_name(v), blocks=len(m))
                return "ValueError"
            exp = list(next(iter(m.values())).keys())
        else:  # get_default
            st, v = call(lambda: obj.get(key, "DEFAULT") if key not in m else "present")
            exp = "DEFAULT" if key not in m else "present"
        if st == "exc":
            self.fail("mapping:protocol-raised", level=level, what=what, got=exc_name(v), msg=str(v)[:200])
        if v != exp:
            self.fail("mapping:protocol-wrong", level=level, what=what, got=v, expected=exp)
        return "ok"

    def cat_ok_for_read(self, level, op, k):
        return True

    def op_bad_assign(self, op):
        S = self.S
        self.res.stats["probe:rejected-op"] += 1
        self.res.stats["fault:wrong-level-assign"] += 1
        # a column whose mask has another length than its data is refused at construction (documented IndexError)
        st, val = call(S.Column, np.array(["a", "b", "c"]), np.array([0, 1], dtype=np.uint8))
        if st == "ok" or not isinstance(val, IndexError):
            self.fail("mapping:mask-length-mismatch-accepted", got="ok" if st == "ok" else exc_name(val))
        if op["level"] == "file":
            st, val = call(self.file.__setitem__, op["b"], S.Category({"id": ["1"]}))
            if st == "ok" or not isinstance(val, TypeError):
                self.fail("mapping:wrong-level-accepted", level="file", got="ok" if st == "ok" else exc_name(val))
            return "TypeError"
        blk = self.get_block(op["b"], "bad_assign")
        if blk is None:
            return "KeyError"
        st, val = call(blk.__setitem__, op["c"], S.Block())
        if st == "ok" or not isinstance(val, TypeError):
            self.fail("mapping:wrong-level-accepted", level="block", got="ok" if st == "ok" else exc_name(val))
        return "TypeError"

    def op_mixin(self, op):
        level, what = op["level"], op["what"]
        S = self.S
        if level == "file":
            obj, m = self.file, self.model
        elif level == "block":
            obj = self.get_block(op["b"], "mixin")
            if obj is None:
                return "KeyError"
            m = self.model[op["b"]]
        else:
            _, obj = self.get_cat(op["b"], op["c"], "mixin")
            if obj is None:
                return "KeyError"
            m = self.model[op["b"]][op["c"]]
        if level == "cat" and self.flavour == "text" and what in ("pop", "popitem", "clear") and len(m) <= (1 if what != "clear" else 10**9):
            return "skipped"  # would (legitimately) hit the last-column refusal
        if what == "pop":
            key = next(iter(m)) if m else op["key"]
            st, v = call(obj.pop, key, None)
            if st == "exc":
                self.fail("mapping:mixin-raised", level=level, what=what, got=exc_name(v), msg=str(v)[:200])
            m.pop(key, None)
        elif what == "popitem":
            if not m:
                st, v = call(obj.popitem)
                if st == "ok" or not isinstance(v, KeyError):
                    self.fail("mapping:missing-key-not-KeyError", level=level, op="popitem", got="ok" if st == "ok" else exc_name(v))
                return "KeyError"
            st, v = call(obj.popitem)
            if st == "exc":
                self.fail("mapping:mixin-raised", level=level, what=what, got=exc_name(v), msg=str(v)[:200])
            k = v[0]
            if k not in m:
                self.fail("mapping:mixin-wrong", level=level, what=what, got=k)
            del m[k]
        elif what == "clear":
            st, v = call(obj.clear)
            if st == "exc":
                self.fail("mapping:mixin-raised", level=level, what=what, got=exc_name(v), msg=str(v)[:200])
            m.clear()
        elif what in ("update", "setdefault"):
            if level == "file":
                key, val, mval = "b_new", S.Block(), {}
            elif level == "block":
                key, val, mval = "c_new", S.category({"cols": ["id"], "cells": {"id": [["7", 0]]}}), {"id": [["7", 0]]}
            else:
                rows = len(next(iter(m.values()))) if m else 1
                cells = [["u", 0] for _ in range(rows)]
                key, val, mval = "u_new", S.column(cells, "column"), cells
            if what == "update":
                st, v = call(obj.update, {key: val})
            else:
                st, v = call(obj.setdefault, key, val)
            if st == "exc":
                self.fail("mapping:mixin-raised", level=level, what=what, got=exc_name(v), msg=str(v)[:200])
            if key not in m:
                m[key] = mval
            elif what == "update":
                m[key] = mval
        self.mutations += 1
        return "ok"

    def op_eq(self, op):
        if not self.store_valid():
            return "skipped"
        f = self.file
        st, copy = call(self.durable_copy, f)
        if st == "exc":
            return self.restart_failed(copy, "eq")
        # read everything from the live object between taking the copy and comparing: reading is not an edit,
        # so the live object must still equal the copy taken before
        self.check_all()
        st, v = call(lambda: f == copy)
        if st == "exc" or v is not True:
            self.fail("mapping:eq-false-for-equal", got=v if st == "ok" else exc_name(v))
        st, v = call(lambda: f != copy)
        if st == "exc" or v is not False:
            self.fail("mapping:ne-true-for-equal", got=v if st == "ok" else exc_name(v))
        # a container is not equal to something that is no container of its kind (an ordinary mapping's == returns False
        # there, it does not raise and does not say True)
        odd = [0, "x", None, {}, []]
        elems = [("file", f)]
        for bn in list(self.model)[:1]:
            blk0 = f[bn]
            elems.append(("block", blk0))
            for cn in list(self.model[bn])[:1]:
                cat0 = blk0[cn]
                elems.append(("category", cat0))
                for col in list(self.model[bn][cn])[:1]:
                    elems.append(("column", cat0[col]))
        for i, (lvl, obj) in enumerate(elems):
            other = elems[(i + 1) % len(elems)][1] if len(elems) > 1 else 0
            for o in odd[: 2] + [other]:
                st, v = call(lambda: obj == o)
                if st == "exc" or v is not False:
                    self.fail("mapping:eq-with-another-kind-of-object", level=lvl, other=type(o).__name__, got=v if st == "ok" else exc_name(v))
        # equality of mappings does not depend on the insertion order: move the first block, the first category of
        # every block and the first column of every category to the end (pop + set, on a second copy)
        st, rcopy = call(self.durable_copy, f)
        if st == "ok":
            moved = 0
            for bn in list(self.model):
                blk = rcopy[bn]
                for cn in list(self.model[bn]):
                    cat = blk[cn]
                    cols = list(self.model[bn][cn])
                    if len(cols) > 1:
                        col = cat[cols[0]]
                        del cat[cols[0]]
                        cat[cols[0]] = col
                        moved += 1
                cats = list(self.model[bn])
                if len(cats) > 1:
                    cat = blk[cats[0]]
                    del blk[cats[0]]
                    blk[cats[0]] = cat
                    moved += 1
            blocks = list(self.model)
            if len(blocks) > 1:
                blk = rcopy[blocks[0]]
                del rcopy[blocks[0]]
                rcopy[blocks[0]] = blk
                moved += 1
            if moved:
                for what, fn in (("f == reordered", lambda: f == rcopy), ("reordered == f", lambda: rcopy == f)):
                    st, v = call(fn)
                    if st == "exc" or v is not True:
                        self.fail("mapping:eq-false-for-reordered", what=what, got=v if st == "ok" else exc_name(v))
                self.res.stats["probe:eq-reordered"] += 1
        # a store that differs in one place must compare unequal
        if self.model:
            b = next(iter(self.model))
            if self.model[b]:
                c = next(iter(self.model[b]))
                mc = self.model[b][c]
                col = next(iter(mc))
                changed = [list(x) for x in mc[col]]
                changed[0] = ["DIFFERENT", 0]
                copy[b][c][col] = self.S.column(changed, "column")
            else:
                copy[b]["extra_cat"] = self.S.category({"cols": ["id"], "cells": {"id": [["1", 0]]}})
            st, v = call(lambda: f == copy)
            if st == "exc" or v is not False:
                self.fail("mapping:eq-true-for-different", got=v if st == "ok" else exc_name(v))
            self.res.stats["probe:eq-negative"] += 1
            # ... a store in which one column has another name (same number of columns) ...
            if self.model[b]:
                st, copy3 = call(self.durable_copy, f)
                if st == "ok":
                    col0 = next(iter(self.model[b][c]))
                    cells0 = self.model[b][c][col0]
                    st2, _ = call(lambda: copy3[b][c].__setitem__("renamed_col", self.S.column([list(x) for x in cells0], "column")))
                    if len(self.model[b][c]) > 1 or self.flavour == "bin":
                        call(lambda: copy3[b][c].__delitem__(col0))
                        st, v = call(lambda: f == copy3)
                        if st == "exc" or v is not False:
                            self.fail("mapping:eq-true-for-different", what="one column renamed", got=v if st == "ok" else exc_name(v))
                        st, v = call(lambda: copy3 == f)
                        if st == "exc" or v is not False:
                            self.fail("mapping:eq-true-for-different", what="one column renamed (reversed)", got=v if st == "ok" else exc_name(v))
            # ... a store in which one table has one column more, or one column fewer (a strict superset / subset of the
            # column names, all shared columns equal) ...
            if self.model[b]:
                for what in ("one more column", "one column fewer"):
                    st, copy4 = call(self.durable_copy, f)
                    if st == "exc":
                        break
                    cells0 = self.model[b][c][next(iter(self.model[b][c]))]
                    if what == "one more column":
                        st2, _ = call(lambda: copy4[b][c].__setitem__("zz_extra_col", self.S.column([list(x) for x in cells0], "column")))
                    elif len(self.model[b][c]) > 1:
                        st2, _ = call(lambda: copy4[b][c].__delitem__(next(iter(self.model[b][c]))))
                    else:
                        continue
                    if st2 == "exc":
                        continue
                    for side, fn in (("left", lambda: f == copy4), ("right", lambda: copy4 == f)):
                        st, v = call(fn)
                        if st == "exc" or v is not False:
                            self.fail("mapping:eq-true-for-different", what=what, live_store_on=side, got=v if st == "ok" else exc_name(v))
            # ... and so must a store in which one table has its last row once more (another row count)
            if self.model[b]:
                st, copy2 = call(self.durable_copy, f)
                if st == "ok":
                    for cn, cells in self.model[b][c].items():
                        copy2[b][c][cn] = self.S.column([list(x) for x in cells] + [list(cells[-1])], "column")
                    st, v = call(lambda: f == copy2)
                    if st == "exc" or v is not False:
                        self.fail("mapping:eq-true-for-different", what="one more (duplicated) row", got=v if st == "ok" else exc_name(v),
                                  rows=len(next(iter(self.model[b][c].values()))))
        # ... a store in which one present cell is marked as missing while the data underneath stays the same (tables
        # that differ in a mask state only) ...
        if self.model:
            b = next(iter(self.model))
            done = False
            for c, mc in self.model[b].items():
                for cn, cells in mc.items():
                    rows = [i for i, x in enumerate(cells) if x[1] == 0]
                    if not rows or done:
                        continue
                    st, other = call(self.durable_copy, f)
                    if st == "exc":
                        continue
                    masks = [x[1] for x in cells]
                    masks[rows[0]] = 2
                    data = [x[0] if x[1] == 0 else "" for x in cells]
                    if self.flavour == "text":
                        col = self.S.Column(data, masks)
                    else:
                        col = self.S.Column(np.array(data, dtype=str), np.array(masks, dtype=np.uint8))
                    st, _ = call(lambda: other[b][c].__setitem__(cn, col))
                    if st == "exc":
                        continue
                    if self.flavour == "bin":
                        # a freshly built binary column differs from a stored one in its (not yet learnt) encoding
                        # parameters already, which would decide the comparison before the masks are looked at: send
                        # the modified store through its durable form once, like the live one
                        st, other2 = call(self.durable_copy, other)
                        if st == "ok":
                            other = other2
                    done = True
                    for side, fn in (("left", lambda: f == other), ("right", lambda: other == f)):
                        st, v = call(fn)
                        if st == "exc" or v is not False:
                            self.fail("mapping:eq-true-for-different", what="one cell missing instead of present, same data underneath",
                                      live_store_on=side, got=v if st == "ok" else exc_name(v))
                    self.res.stats["probe:eq-negative-mask-only"] += 1
        # ... and a store with one block more or one block fewer, whichever side it stands on (also the empty store)
        for what in ("one more block", "one block fewer"):
            st, other = call(self.durable_copy, f)
            if st == "exc":
                break
            if what == "one more block":
                other["extra_block_zz"] = self.S.Block()
            elif self.model:
                del other[next(iter(self.model))]
            else:
                continue
            for side, fn in (("left", lambda: f == other), ("right", lambda: other == f)):
                st, v = call(fn)
                if st == "exc" or v is not False:
                    self.fail("mapping:eq-true-for-different", what=what, live_store_on=side, got=v if st == "ok" else exc_name(v))
            st, v = call(lambda: f != other)
            if st == "exc" or v is not True:
                self.fail("mapping:ne-false-for-different", what=what, got=v if st == "ok" else exc_name(v))
        st, v = call(lambda: f == 5)
        if st == "exc" or v is not False:
            self.fail("mapping:eq-other-type", got=v if st == "ok" else exc_name(v))
        return "ok"

    def durable_copy(self, f):
        if self.flavour == "text":
            return self.S.File.deserialize(f.serialize())
        return self.S.File.deserialize(self.pack(f.serialize()))

    def restart_failed(self, exc, how):
        if self.store_valid():
            cause = exc.__cause__ or exc.__context__
            info = {}
            # name the first category that cannot be serialised on its own, for the finding's identity
            self.fail("restart:raised-for-valid-store", how=how, got=exc_name(exc), msg=str(exc)[:300],
                      cause=exc_name(cause) if cause else None, **info)
        self.res.stats["probe:restart-refused-invalid-store"] += 1
        self.res.stats["fault:restart-of-invalid-store"] += 1
        return "refused:" + exc_name(exc)

    def op_restart(self, op):
        how = op["how"]
        S = self.S
        f = self.file
        text_mode = self.flavour == "text"
        if how == "str":
            st, v = call(str, f)
            if st == "exc":
                return self.restart_failed(v, how)
            if not self.store_valid():
                self.fail("restart:invalid-store-serialised", how=how)
            return "ok"
        if how in ("subtree_block", "subtree_cat"):
            b = op["b"]
            blk = self.get_block(b, "restart")
            if blk is None:
                return "KeyError"
            if how == "subtree_block":
                valid = all(self.cat_valid(c) for c in self.model[b].values())
                if text_mode:
                    st, new = call(lambda: S.Block.deserialize(blk.serialize()))
                else:
                    st, new = call(lambda: S.Block.deserialize(self.pack(blk.serialize())))
                if st == "exc":
                    if valid:
                        self.fail("restart:raised-for-valid-store", how=how, got=exc_name(new), msg=str(new)[:300])
                    self.res.stats["probe:restart-refused-invalid-store"] += 1
                    return "refused"
                if not valid:
                    self.fail("restart:invalid-store-serialised", how=how)
                st, v = call(f.__setitem__, b, new)
                if st == "exc":
                    self.fail("mapping:set-raised", level="file", got=exc_name(v))
                return "ok"
            c = op["c"]
            if c not in self.model[b]:
                return "no-cat"
            st, cat = call(lambda: blk[c])
            if st == "exc":
                self.fail("view:category-get-raised", block=b, cat=c, got=exc_name(cat), msg=str(cat)[:200], **self.describe_table(self.model[b][c]))
            valid = self.cat_valid(self.model[b][c])
            if text_mode:
                # a category built through CIFBlock(categories) only learns its name when the block is
                # serialised; standalone serialisation needs the (public) name attribute
                cat.name = c
                st, new = call(lambda: S.Category.deserialize(cat.serialize()))
            else:
                st, new = call(lambda: S.Category.deserialize(self.pack(cat.serialize())))
            if st == "exc":
                if valid:
                    self.fail("restart:raised-for-valid-store", how=how, got=exc_name(new), msg=str(new)[:300],
                              **self.describe_table(self.model[b][c]))
                self.res.stats["probe:restart-refused-invalid-store"] += 1
                return "refused"
            if not valid:
                self.fail("restart:invalid-store-serialised", how=how)
            st, v = call(blk.__setitem__, c, new)
            if st == "exc":
                self.fail("mapping:set-raised", level="block", got=exc_name(v))
            return "ok"
        # whole-file restarts through a medium
        def go():
            if how == "memory":
                return self.durable_copy(f)
            if self.scratch is None:
                self.scratch = tempfile.mkdtemp(prefix="c06-")
            if how == "stream":
                buf = io.StringIO() if text_mode else io.BytesIO()
                f.write(buf)
                buf.seek(0)
                return S.File.read(buf)
            if how == "shortread":
                # a stream that hands out at most k characters / bytes per read(size) call (legal for any file object,
                # usual for pipes and sockets); read() without a size returns everything
                buf = io.StringIO() if text_mode else io.BytesIO()
                f.write(buf)
                data = buf.getvalue()
                base = io.StringIO if text_mode else io.BytesIO
                k = (1, 3, 16, 64, 4096)[len(data) % 5]
                counter = self.res.stats

                class Short(base):
                    def read(self, size=-1):
                        if size is None or size < 0:
                            return super().read()
                        counter["fault:short-read"] += 1
                        return super().read(min(size, k))

                return S.File.read(Short(data))
            if how == "path":
                p = os.path.join(self.scratch, "f.cif" if text_mode else "f.bcif")
                f.write(p)
                return S.File.read(p)
            if how == "pathobj":
                import pathlib

                p = pathlib.Path(self.scratch) / ("g.cif" if text_mode else "g.bcif")
                f.write(p)
                return S.File.read(p)
            if how == "tempfile":
                with tempfile.NamedTemporaryFile("w+" if text_mode else "w+b", dir=self.scratch, newline="" if text_mode else None) as t:
                    f.write(t)
                    t.flush()
                    t.seek(0)
                    return S.File.read(t)
            if how == "wrapper":
                p = os.path.join(self.scratch, "w.cif" if text_mode else "w.bcif")
                if text_mode:
                    with open(p, "wb") as raw:
                        w = io.TextIOWrapper(raw, encoding="utf-8", newline="\n")
                        f.write(w)
                        w.flush()
                        w.detach()
                    with open(p, "rb") as raw:
                        return S.File.read(io.TextIOWrapper(raw, encoding="utf-8", newline="\n"))
                with open(p, "wb") as raw:
                    f.write(raw)
                with open(p, "rb") as raw:
                    return S.File.read(raw)
            raise AssertionError(how)

        self.note_restart()
        st, new = call(go)
        self.res.stats["medium:" + how] += 1
        if st == "exc":
            return self.restart_failed(new, how)
        if not self.store_valid():
            self.fail("restart:invalid-store-serialised", how=how)
        self.file = new
        self.parsed = set()
        return "ok"

    def pack(self, content):
        """The way from serialize() to deserialize() for the binary flavour: every second time through MessagePack
        bytes (what write()/read() do; the new container gets objects of its own), otherwise the object returned by
        serialize() is handed to deserialize() as it is - the documented pairing of the two methods. In the direct case
        the two containers share every element that was still serialised; none of them may change it."""
        self.packs = getattr(self, "packs", 0) + 1
        if self.packs % 2 == 0:
            self.res.stats["medium:direct-serialize-deserialize"] += 1
            return content
        import msgpack

        from biotite.structure.io.pdbx.bcif import _encode_numpy

        return msgpack.unpackb(msgpack.packb(content, use_bin_type=True, default=_encode_numpy), use_list=True, raw=False)

    def op_check_all(self, op):
        self.check_all()
        return "ok"


def self_rng_bool(key, m):
    # deterministic: probe a missing key when the generated key is absent, else an existing one
    return key in m or (len(key) % 2 == 0)


def classify_value(v):
    """Class of an awkward value, used to give findings a stable identity."""
    if v == "":
        return "empty"
    if v in (".", "?"):
        return "mask"
    if "\n" in v:
        return "linebreak"
    c = []
    if "'" in v and '"' in v:
        return "both-quotes"
    if "'" in v:
        c.append("single-quote")
    if '"' in v:
        c.append("double-quote")
    if v[0] in "_#;$[]":
        c.append("leading-" + v[0])
    low = v.lower()
    if low.startswith(("data_", "loop_", "save_", "global_", "stop_")):
        c.append("reserved-word")
    if " " in v or "\t" in v:
        c.append("blank")
    return "+".join(c) if c else "plain"


def execute(spec, keep_log=0):
    sim = Sim(spec, keep_log)
    res = sim.res
    try:
        try:
            sim.run()
        except Violation as v:
            res.violation = {"sig": v.sig, "detail": v.detail, "step": v.step}
            sim.log.add({"violation": v.sig, "step": v.step})
    finally:
        if sim.scratch:
            shutil.rmtree(sim.scratch, ignore_errors=True)
    res.nontrivial = res.n_ops >= 3 and sim.mutations >= 1 and sim.deep >= 1
    res.digest = sim.log.digest()
    res.log = sim.log.tail if keep_log else None
    return res


def simplify(spec):
    import copy

    ops = spec["ops"]
    for i, op in enumerate(ops):
        # shrink tables: fewer categories, fewer columns, fewer rows, plainer cells
        if op["op"] == "set_block" and len(op["cats"]) > 0:
            for c in list(op["cats"]):
                s = copy.deepcopy(spec)
                del s["ops"][i]["cats"][c]
                yield s
        tables = []
        if op["op"] == "set_block":
            tables = [("cats", c) for c in op["cats"]]
        elif op["op"] == "set_cat":
            tables = [("table", None)]
        for key, c in tables:
            t = op[key][c] if c is not None else op[key]
            if len(t["cols"]) > 1:
                for n in t["cols"]:
                    s = copy.deepcopy(spec)
                    t2 = s["ops"][i][key][c] if c is not None else s["ops"][i][key]
                    t2["cols"].remove(n)
                    del t2["cells"][n]
                    yield s
            if t["rows"] > 1:
                for r in range(t["rows"]):
                    s = copy.deepcopy(spec)
                    t2 = s["ops"][i][key][c] if c is not None else s["ops"][i][key]
                    t2["rows"] -= 1
                    for n in t2["cols"]:
                        del t2["cells"][n][r]
                    yield s
            for n in t["cols"]:
                for r, cell in enumerate(t["cells"][n]):
                    if cell != ["A", 0]:
                        s = copy.deepcopy(spec)
                        t2 = s["ops"][i][key][c] if c is not None else s["ops"][i][key]
                        t2["cells"][n][r] = ["A", 0]
                        yield s
        if op["op"] == "set_col":
            if len(op["cells"]) > 1:
                s = copy.deepcopy(spec)
                s["ops"][i]["cells"] = op["cells"][:1]
                yield s
            for r, cell in enumerate(op["cells"]):
                if cell != ["A", 0]:
                    s = copy.deepcopy(spec)
                    s["ops"][i]["cells"][r] = ["A", 0]
                    yield s
        if op["op"] == "restart" and op["how"] != "memory" and not op["how"].startswith("subtree") and op["how"] != "str":
            s = copy.deepcopy(spec)
            s["ops"][i]["how"] = "memory"
            yield s
