"""The simulated world for C20: virtual clock, event queue, in-process child processes (SimPopen),
subprocess.run shim, deterministic temp-file names, fake MSA tools.

Nothing here reads a real clock, sleeps, forks or draws from a global PRNG. All choices come from the
run's spec (which came from the run's single PRNG)."""

import errno
import heapq
import io
import os
import random
import subprocess as _real_subprocess
import tempfile

from .core import InvalidSpec, Violation

EPOCH = 1_700_000_000.0
INF = float("inf")


class SimDeadlock(InvalidSpec):
    pass


class InjectedInterrupt(KeyboardInterrupt):
    """The simulator's stand-in for a signal (Ctrl-C) delivered to the caller's thread while biotite code runs: at
    a launch, or inside a blocking wait. A subclass of KeyboardInterrupt so that the code under test treats it as one;
    core.call() tells it apart from a real Ctrl-C on the harness by the `injected` flag."""

    injected = True


class InjectedExit(SystemExit):
    """What a SIGTERM handler calling sys.exit() raises in the caller's thread while biotite code runs."""

    injected = True


class InjectedAbort(BaseException):
    """Any other asynchronous BaseException (asyncio.CancelledError, a test runner's timeout, GeneratorExit...)."""

    injected = True


INJECTED = {"KeyboardInterrupt": InjectedInterrupt, "SystemExit": InjectedExit, "BaseException": InjectedAbort}
INJECTED_CLASSES = (InjectedInterrupt, InjectedExit, InjectedAbort)


def injected(script):
    """The asynchronous exception a script's `interrupt` fault delivers."""
    return INJECTED[script.get("intr_class", "KeyboardInterrupt")]()


class World:
    def __init__(self, root, stats):
        self.root = root
        self.now = EPOCH
        self.offset = 0.0  # clock skew applied to what application.time.time() returns
        self.jumped = False
        self.q = []
        self.seq = 0
        self.procs = []
        self.next_pid = 4000
        self.stats = stats
        self.current = None  # the wrapper record on whose behalf biotite code is running right now
        self.sleeps = 0
        self.version_script = None
        self.events_fired = 0
        self.interrupt_at = None  # simulated instant at which the next blocking wait is interrupted
        self.interrupt_class = InjectedInterrupt
        self.disk_full = False  # while True, every write / flush through a wrapper's temp-file handle fails with ENOSPC

    # ---- discrete-event time ---------------------------------------------------------------
    def after(self, at, fn):
        self.seq += 1
        heapq.heappush(self.q, (at, self.seq, fn))

    def fire_due(self):
        while self.q and self.q[0][0] <= self.now:
            at, _, fn = heapq.heappop(self.q)
            self.events_fired += 1
            fn()

    def advance_to(self, t):
        while self.q and self.q[0][0] <= t:
            at, _, fn = heapq.heappop(self.q)
            if at > self.now:
                self.now = at
            self.events_fired += 1
            fn()
        if t > self.now:
            self.now = t

    def advance(self, dt):
        if dt < 0:
            raise ValueError("sleep length must be non-negative")
        self.advance_to(self.now + dt)

    def block_until(self, t):
        """A blocking wait of the code under test (sleep, communicate) up to instant t; an armed interrupt that falls
        into the wait ends it there."""
        ia = self.interrupt_at
        if ia is not None and ia <= t:
            self.advance_to(max(ia, self.now))
            self.interrupt_at = None
            self.stats["fault:interrupt-in-wait"] += 1
            raise self.interrupt_class()
        self.advance_to(t)


class VClock:
    """Stands in for the `time` module inside biotite.application.application."""

    def __init__(self, world):
        self.w = world

    def time(self):
        return self.w.now + self.w.offset

    def monotonic(self):
        return self.w.now

    def sleep(self, d):
        self.w.sleeps += 1
        if self.w.sleeps > 400000:
            raise SimDeadlock("more than 400000 sleeps in one run")
        self.w.stats["sim:sleeps"] += 1
        if d < 0:
            raise ValueError("sleep length must be non-negative")
        self.w.block_until(self.w.now + d)


class DetNames:
    """Deterministic replacement for tempfile._RandomNameSequence (per-run PRNG)."""

    def __init__(self, seed):
        self.rng = random.Random(f"names:{seed}")

    def __iter__(self):
        return self

    def __next__(self):
        return "".join(self.rng.choice("abcdefghijklmnopqrstuvwxyz0123456789_") for _ in range(8))


# ----------------------------------------------------------------------------------------------
# child processes
# ----------------------------------------------------------------------------------------------

BAD_TAIL = b"fichier introuvable: caf\xe9\n"  # Latin-1 text: not valid UTF-8
EARLY_ERR = b"warning: this may take a while\n"  # what a chatty program prints on STDERR right after it was started


EARLY_OUT = "starting\n"  # what some programs print on STDOUT right after the start


def early_stdout(script, kind=None):
    """STDOUT text a program has already written while it is still running: every second program that prints early on
    STDERR does so on STDOUT as well (not the one whose STDOUT is its result)."""
    if script.get("early_err") and script.get("tool_seed", 1) % 2 == 0 and kind != "mafft":
        return EARLY_OUT
    return ""


def early_bytes(script):
    """STDERR bytes a program has already written when it is still running (script flag `early_err`); with `bad_bytes`
    the undecodable message is part of them instead of coming last."""
    if not script.get("early_err"):
        return b""
    return EARLY_ERR + (BAD_TAIL if script.get("bad_bytes") else b"")


class SimPopen:
    """In-process stand-in for subprocess.Popen with the subset of semantics biotite relies on:
    poll(), communicate(timeout) (idempotent after exit), kill() (polls first), returncode, pid, args."""

    world = None  # set by install()

    def __init__(self, args, stdin=None, stdout=None, stderr=None, encoding=None, **kw):
        w = SimPopen.world
        rec = w.current
        if rec is None:
            raise RuntimeError("SimPopen outside of a wrapper call")
        w.stats["sim:popen"] += 1
        script = rec.script
        self.args = list(args)
        self.launch_cwd = os.getcwd()
        self.stdin = stdin
        self.encoding = encoding
        self.errors = kw.get("errors")
        self.returncode = None
        self.pid = None
        rec.launch_attempts.append(self)
        # what the real Popen refuses before it asks the operating system for anything
        for a in self.args:
            if not isinstance(a, (str, bytes, os.PathLike)):
                w.stats["fault:launch-bad-argument"] += 1
                raise TypeError(f"expected str, bytes or os.PathLike object, not {type(a).__name__}")
            if isinstance(a, str) and "\0" in a:
                w.stats["fault:launch-bad-argument"] += 1
                raise ValueError("embedded null byte")
        if stdin is not None and getattr(stdin, "closed", False):
            w.stats["fault:launch-bad-argument"] += 1
            raise ValueError("I/O operation on closed file")
        launch = script.get("launch", "ok")
        if launch != "ok":
            w.stats[f"fault:launch-{launch}"] += 1
            if launch == "enoent":
                raise FileNotFoundError(errno.ENOENT, "No such file or directory", self.args[0])
            if launch == "eacces":
                raise PermissionError(errno.EACCES, "Permission denied", self.args[0])
            if launch == "eagain":
                raise BlockingIOError(errno.EAGAIN, "Resource temporarily unavailable")
            if launch == "interrupt":
                raise injected(script)
            raise OSError(errno.EIO, launch)
        self.pid = w.next_pid
        w.next_pid += 1
        self.rec = rec
        self.started = w.now
        dur = script.get("dur")
        self.exit_at = INF if dur is None else w.now + dur
        self.state = "running"  # running | exited | killed
        self._code = None
        self._out = ""
        self._err = ""
        self.tool_report = None
        self.communicates = 0
        self.draining = False
        self.blocked = False
        w.procs.append(self)
        rec.procs.append(self)
        if self.exit_at != INF:
            w.after(self.exit_at, self._exit_event)
        else:
            w.stats["fault:tool-hangs"] += 1

    # the child's own behaviour -----------------------------------------------------------------
    def _exit_event(self):
        if self.state != "running":
            return
        w = SimPopen.world
        if self.rec.script.get("big_output") and not self.draining:
            # the program prints more than a pipe holds (64 KiB) before it exits: it sits in write() until somebody
            # reads the pipe - poll() and wait() do not, communicate() does
            if not self.blocked:
                w.stats["sim:child-blocked-on-full-pipe"] += 1
            self.blocked = True
            return
        self.blocked = False
        code, out, err, report = self.rec.tool(self)
        out = early_stdout(self.rec.script, getattr(self.rec, "kind", None)) + out
        self._code, self._out, self._err, self.tool_report = code, out, err, report
        self.state = "exited"
        w.stats["sim:child-exits"] += 1

    def alive(self):
        return self.state == "running"

    # Popen API -----------------------------------------------------------------------------------
    def poll(self):
        w = SimPopen.world
        w.fire_due()
        if self.returncode is None:
            if self.state == "exited":
                self.returncode = self._code
            elif self.state == "killed":
                self.returncode = -9
        return self.returncode

    def wait(self, timeout=None):
        self._wait(timeout)
        return self.poll()

    def _wait(self, timeout):
        w = SimPopen.world
        w.fire_due()
        if self.state == "running":
            can_exit = self.exit_at != INF and (self.draining or not self.rec.script.get("big_output"))
            if can_exit and (timeout is None or self.exit_at - w.now <= timeout):
                w.block_until(self.exit_at)
            elif timeout is None:
                if w.interrupt_at is None and self.exit_at != INF and self.rec.script.get("big_output"):
                    # the code under test waits for a child that waits for its pipe to be read: neither will ever move.
                    # The program would have exited; this deadlock is the wrapper's, not the spec's
                    raise Violation("liveness:wait-on-child-blocked-on-full-pipe", {"kind": getattr(self.rec, "kind", None)})
                if w.interrupt_at is None:
                    raise SimDeadlock("blocking wait on a child that never exits")
                w.block_until(INF)
            else:
                w.block_until(w.now + max(timeout, 0))
                if self.state == "running":
                    # like the real communicate(): what has been read from the pipes so far travels with the exception,
                    # as bytes, also in text mode
                    early = early_bytes(self.rec.script) if self.draining else b""
                    eout = early_stdout(self.rec.script, getattr(self.rec, "kind", None)).encode() if self.draining else b""
                    raise _real_subprocess.TimeoutExpired(self.args, timeout, output=eout or None, stderr=early or None)

    def communicate(self, input=None, timeout=None):
        self.communicates += 1
        self.draining = True
        if self.blocked:
            self._exit_event()  # the pipe is read now: the blocked program finishes its output and exits
        try:
            self._wait(timeout)
        finally:
            self.draining = False
        self.poll()
        if self.state == "killed":
            return "", ""
        return self._out, self.decoded_err()

    def decoded_err(self):
        """What the pipe reader hands out as STDERR text. A program may print bytes that are not valid in the
        encoding the wrapper asked for (a message in the locale's 8-bit encoding): like the real Popen, decoding
        happens on every communicate() call and raises UnicodeDecodeError every time unless an error policy was given."""
        script = self.rec.script
        early = early_bytes(script)
        if self.encoding is None or not (script.get("bad_bytes") or early):
            return self._err
        w = SimPopen.world
        if script.get("bad_bytes") and not getattr(self, "_bad_counted", False):
            self._bad_counted = True
            w.stats["fault:undecodable-stderr-bytes"] += 1
        if early:
            raw = early + self._err.encode(self.encoding)
        else:
            raw = self._err.encode(self.encoding) + BAD_TAIL
        return raw.decode(self.encoding, self.errors or "strict")

    def kill(self):
        SimPopen.world.stats["sim:kill-calls"] += 1
        self.poll()
        if self.returncode is None and self.state == "running":
            self.state = "killed"
            SimPopen.world.stats["sim:children-killed"] += 1

    def terminate(self):
        """SIGTERM: a program may handle or ignore it (shell wrappers, tools that finish their work package first);
        only kill() cannot be refused."""
        if self.rec.script.get("ignores_term"):
            SimPopen.world.stats["sim:sigterm-ignored"] += 1
            self.poll()
            return
        self.kill()

    def send_signal(self, sig):
        import signal as _signal

        if sig == _signal.SIGKILL:
            self.kill()
        else:
            self.terminate()


class SimTempFile:
    """What a wrapper gets from NamedTemporaryFile(): the real temporary file behind a thin proxy that lets the
    simulator fill the disk. While `world.disk_full` is set, write() and flush() through the handle fail with ENOSPC;
    data that could not be written stays pending, and close() then behaves like a buffered file on a full device
    (checked against /dev/full): it raises ENOSPC once and the file is closed all the same."""

    def __init__(self, real, world):
        object.__setattr__(self, "_f", real)
        object.__setattr__(self, "_w", world)
        object.__setattr__(self, "_pending", False)

    def _enospc(self):
        self._w.stats["fault:disk-full-write"] += 1
        object.__setattr__(self, "_pending", True)
        raise OSError(errno.ENOSPC, "No space left on device")

    def write(self, data):
        if self._w.disk_full:
            self._enospc()
        return self._f.write(data)

    def writelines(self, lines):
        if self._w.disk_full:
            self._enospc()
        return self._f.writelines(lines)

    def flush(self):
        if self._w.disk_full or self._pending:
            self._enospc()
        return self._f.flush()

    def close(self):
        if self._pending:
            object.__setattr__(self, "_pending", False)
            self._f.close()
            self._w.stats["sim:close-with-unwritten-data"] += 1
            raise OSError(errno.ENOSPC, "No space left on device")
        return self._f.close()

    def __getattr__(self, name):
        return getattr(self._f, name)

    def __setattr__(self, name, value):
        setattr(self._f, name, value)

    def __iter__(self):
        return iter(self._f)

    def __enter__(self):
        self._f.__enter__()
        return self

    def __exit__(self, *a):
        return self._f.__exit__(*a)


def install_tempfile_seam(world):
    """Rebind the NamedTemporaryFile name the MSA wrapper modules imported; returns what remove_tempfile_seam() needs."""
    import importlib

    saved = []
    for modname in ("biotite.application.msaapp", "biotite.application.clustalo.app", "biotite.application.muscle.app3"):
        m = importlib.import_module(modname)
        real = m.NamedTemporaryFile
        saved.append((m, real))
        m.NamedTemporaryFile = (lambda real: (lambda *a, **k: SimTempFile(real(*a, **k), world)))(real)
    return saved


def remove_tempfile_seam(saved):
    for m, real in saved:
        m.NamedTemporaryFile = real


class SubprocessShim:
    """Stands in for the `subprocess` module inside biotite.application.localapp (only get_version uses it)."""

    SubprocessError = _real_subprocess.SubprocessError
    TimeoutExpired = _real_subprocess.TimeoutExpired
    PIPE = _real_subprocess.PIPE

    def __init__(self, world):
        self.w = world

    def run(self, args, capture_output=False, text=False, **kw):
        w = self.w
        w.stats["sim:version-probes"] += 1
        vs = w.version_script or {"kind": "ok", "banner": ""}
        w.version_args = list(args)
        if vs["kind"] == "enoent":
            w.stats["fault:version-enoent"] += 1
            raise FileNotFoundError(errno.ENOENT, "No such file or directory", args[0])
        if vs["kind"] != "ok":
            w.stats[f"fault:version-{vs['kind']}"] += 1
        return _real_subprocess.CompletedProcess(args, 0, stdout=vs["banner"], stderr="")


# ----------------------------------------------------------------------------------------------
# installing / removing the seams
# ----------------------------------------------------------------------------------------------

class Seams:
    def __init__(self, world, name_seed):
        self.world = world
        self.name_seed = name_seed
        self.saved = None

    def __enter__(self):
        import biotite.application.application as appmod
        import biotite.application.localapp as localmod

        self.saved = (appmod.time, localmod.Popen, localmod.subprocess, tempfile.tempdir,
                      tempfile._name_sequence, os.getcwd())
        appmod.time = VClock(self.world)
        # the temporary files of the MSA wrappers are real; the handle goes through SimTempFile (full-disk fault)
        self.ntf_saved = install_tempfile_seam(self.world)
        localmod.Popen = SimPopen
        localmod.subprocess = SubprocessShim(self.world)
        SimPopen.world = self.world
        tmp = os.path.join(self.world.root, "tmp")
        os.makedirs(tmp, exist_ok=True)
        tempfile.tempdir = tmp
        tempfile._name_sequence = DetNames(self.name_seed)
        return self

    def __exit__(self, *a):
        import biotite.application.application as appmod
        import biotite.application.localapp as localmod

        appmod.time, localmod.Popen, localmod.subprocess, tempfile.tempdir, tempfile._name_sequence, cwd = self.saved
        remove_tempfile_seam(getattr(self, "ntf_saved", []))
        SimPopen.world = None
        try:
            os.chdir(cwd)
        except OSError:
            pass
        return False


# ----------------------------------------------------------------------------------------------
# fake tools
# ----------------------------------------------------------------------------------------------

def read_fasta(path):
    """The tools' own ten-line FASTA reader (independent of biotite's)."""
    recs = []
    with open(path) as f:
        name = None
        for line in f.read().split("\n"):
            if not line.strip():
                continue
            if line.startswith(">"):
                name = line[1:].strip()
                recs.append([name, ""])
            else:
                if name is None:
                    raise ValueError("sequence data before first header")
                recs[-1][1] += line.strip()
    return recs


def build_alignment(seqs, rng):
    """Some valid alignment of the rows: equal length, no all-gap column, ungapped content preserved."""
    n = len(seqs)
    L = max(len(s) for s in seqs) + rng.choice([0, 0, 1, 2, 3])
    rows = []
    for s in seqs:
        gaps = L - len(s)
        pos = sorted(rng.randint(0, len(s)) for _ in range(gaps))
        out = []
        k = 0
        for i in range(len(s) + 1):
            while k < len(pos) and pos[k] == i:
                out.append("-")
                k += 1
            if i < len(s):
                out.append(s[i])
        rows.append("".join(out))
    keep = [c for c in range(L) if any(r[c] != "-" for r in rows)]
    rows = ["".join(r[c] for c in keep) for r in rows]
    return rows


def build_tree(order, rng):
    """Random rooted binary tree over the labels in 'order'; returns (newick text builder, canonical form).
    canonical: leaf = ('L', label_index, dist); inner = ('N', sorted children, dist)."""
    nodes = [("L", i, None) for i in order]
    if len(nodes) == 1:
        return nodes[0]
    while len(nodes) > 1:
        i = rng.randrange(len(nodes) - 1)
        a, b = nodes[i], nodes[i + 1]
        da = rng.randint(0, 99) / 100.0
        db = rng.randint(1, 99) / 100.0
        inner = ("N", ((a, da), (b, db)), None)
        nodes[i:i + 2] = [inner]
    return nodes[0]


def newick(node, label=lambda i: str(i)):
    def rec(nd):
        if nd[0] == "L":
            return label(nd[1])
        parts = []
        for child, d in nd[1]:
            parts.append(f"{rec(child)}:{d:.2f}")
        return "(" + ",".join(parts) + ")"

    return rec(node) + ";"


def canon_tree(node):
    """Order-independent canonical form with distances of children attached to the child."""
    def rec(nd, dist):
        if nd[0] == "L":
            return ("L", nd[1], dist)
        kids = sorted(rec(c, round(d, 2)) for c, d in nd[1])
        return ("N", tuple(kids), dist)

    return rec(node, None)


def wrap(s, width):
    if width is None or width <= 0:
        return [s]
    return [s[i:i + width] for i in range(0, len(s), width)] or [""]


def write_alignment_text(rows, order, rng, out_kind):
    """FASTA text of the alignment rows in tool order, with the scripted output fault applied."""
    width = rng.choice([None, 60, 7, 3, 1])
    recs = [(str(i), rows[i]) for i in order]
    if out_kind == "empty":
        return ""
    if out_kind == "garbage":
        return rng.choice(["CLUSTAL W (1.83) multiple sequence alignment\n\n0  AC-GT\n1  ACGGT\n",
                           "Segmentation fault\n", "\x00\x01\x02 not a fasta file\n",
                           "0\nACGT\n>1\nACGT\n"])
    if out_kind == "missing_row":
        drop = rng.randrange(len(recs))
        recs = [r for k, r in enumerate(recs) if k != drop]
    lines = []
    for name, row in recs:
        lines.append(">" + name)
        lines += wrap(row, width)
    if out_kind == "truncated":
        # the tool died while writing: cut so that at least the last header is lost
        last_header = max(i for i, l in enumerate(lines) if l.startswith(">"))
        cut = rng.randint(1, last_header) if last_header >= 1 else 0
        lines = lines[:cut]
        text = "\n".join(lines)
        if lines and rng.random() < 0.5:
            text += "\n"
        return text
    return "\n".join(lines) + "\n"


def parse_matrix_file(path):
    with open(path) as f:
        lines = [l for l in f.read().split("\n") if l.strip()]
    cols = lines[0].split()
    m = {}
    for l in lines[1:]:
        parts = l.split()
        r = parts[0]
        for c, v in zip(cols, parts[1:]):
            m[(r, c)] = int(v)
    return cols, m


def split_extras(argv):
    """Options injected through add_additional_options are flags named --x-<something>."""
    extras = [a for a in argv if a.startswith("--x-")]
    rest = [a for a in argv if not a.startswith("--x-")]
    return extras, rest


class ToolFail(Exception):
    def __init__(self, msg, code=1):
        self.msg = msg
        self.code = code


def make_tool(kind):
    return {"clustalo": tool_clustalo, "muscle3": tool_muscle3, "muscle5": tool_muscle5,
            "mafft": tool_mafft, "stublocal": tool_stub, "stubmsa": tool_stubmsa}[kind]


def _common_msa(proc, in_path, report):
    script = proc.rec.script
    rng = random.Random(f"tool:{script['tool_seed']}")
    if not os.path.isfile(in_path):
        raise ToolFail(f"cannot open input {in_path}")
    try:
        recs = read_fasta(in_path)
    except ValueError as e:
        raise ToolFail(str(e))
    if len(recs) < 2:
        raise ToolFail("need at least two sequences")
    report["input"] = recs
    seqs = [r[1] for r in recs]
    rows = build_alignment(seqs, rng)
    order = list(range(len(recs)))
    rng.shuffle(order)
    report["rows_by_label"] = {recs[i][0]: rows[i] for i in range(len(recs))}
    report["order_labels"] = [recs[i][0] for i in order]
    tree = build_tree(order, rng)
    report["tree"] = canon_tree(tree)
    text = write_alignment_text(rows, order, rng, script.get("out", "ok"))
    if script.get("case") == "lower" and script.get("out", "ok") == "ok":
        # some programs (MAFFT for nucleotides) print the residues in lower case; the rows are the same alignment
        text = "".join(l if l.startswith(">") else l.lower() for l in text.splitlines(keepends=True))
        SimPopen.world.stats["sim:tool-output-lower-case"] += 1
    return rng, recs, rows, order, tree, text, None


def _tree_text(script_kind, good, rng):
    if script_kind == "ok":
        return good
    if script_kind == "empty":
        return ""
    if script_kind == "garbage":
        return rng.choice(["((0:0.1,1:0.2", "(0:0.1,1:0.2));", "();", "(0:abc,1:0.2);"])
    return None  # missing: do not write


def _finish(proc, report, text_out=""):
    script = proc.rec.script
    code = script.get("exit", 0)
    err = script.get("stderr", "")
    if script.get("big_output"):
        err += "progress: " + "#" * 70000 + "\n"  # a chatty program: more than one pipe buffer on STDERR
    if code != 0:
        SimPopen.world.stats["fault:nonzero-exit"] += 1
    return code, text_out, err, report


def tool_clustalo(proc):
    script = proc.rec.script
    report = {"argv": list(proc.args), "cwd": proc.launch_cwd}
    extras, a = split_extras(proc.args[1:])
    report["extras"] = extras
    opts = {}
    flags = set()
    i = 0
    valued = {"--in", "--out", "--seqtype", "--guidetree-out", "--guidetree-in", "--distmat-out", "--distmat-in"}
    try:
        while i < len(a):
            if a[i] in valued:
                opts[a[i]] = a[i + 1]
                i += 2
            elif a[i].startswith("--"):
                flags.add(a[i])
                i += 1
            else:
                raise ToolFail(f"unexpected positional argument {a[i]}")
        report["opts"] = dict(opts)
        report["flags"] = sorted(flags)
        if "--in" not in opts or "--out" not in opts:
            raise ToolFail("--in and --out are required")
        if "--force" not in flags:
            raise ToolFail("output exists; use --force")
        if "--guidetree-in" in opts and "--guidetree-out" in opts:
            raise ToolFail("cannot read and write a guide tree")
        rng, recs, rows, order, tree, text, label_tree = _common_msa(proc, opts["--in"], report)
        if "--guidetree-in" in opts:
            with open(opts["--guidetree-in"]) as f:
                report["guidetree_in"] = f.read()
        if "--distmat-in" in opts:
            with open(opts["--distmat-in"]) as f:
                report["distmat_in"] = f.read()
        if script.get("exit", 0) == 0 or script.get("partial_output"):
            with open(opts["--out"], "w") as f:
                f.write(text)
            _count_out_fault(script)
            if "--guidetree-out" in opts:
                t = _tree_text(script.get("tree", "ok"), newick(tree, label=lambda i: recs[i][0]), rng)
                _count_tree_fault(script)
                if t is not None:
                    with open(opts["--guidetree-out"], "w") as f:
                        f.write(t + ("\n" if t else ""))
            if "--distmat-out" in opts:
                if "--full" not in flags:
                    raise ToolFail("--distmat-out requires --full")
                n = len(recs)
                dm = [[0.0 if r == c else round(rng.randint(1, 999) / 1000.0, 3) for c in range(n)] for r in range(n)]
                for r in range(n):
                    for c in range(r):
                        dm[r][c] = dm[c][r]
                report["distmat_out"] = dm
                with open(opts["--distmat-out"], "w") as f:
                    f.write(f"{n}\n")
                    for r in range(n):
                        f.write(recs[r][0] + " " + " ".join(f"{v:.6f}" for v in dm[r]) + "\n")
    except ToolFail as e:
        report["tool_error"] = e.msg
        return e.code, "", e.msg + "\n", report
    return _finish(proc, report)


def _count_out_fault(script):
    k = script.get("out", "ok")
    if k != "ok":
        SimPopen.world.stats[f"fault:output-{k}"] += 1


def _count_tree_fault(script):
    k = script.get("tree", "ok")
    if k != "ok":
        SimPopen.world.stats[f"fault:tree-{k}"] += 1
    k1 = script.get("tree1")
    if k1 not in (None, "ok", k):
        SimPopen.world.stats[f"fault:first-tree-only-{k1}"] += 1


def tool_muscle3(proc):
    script = proc.rec.script
    report = {"argv": list(proc.args), "cwd": proc.launch_cwd}
    extras, a = split_extras(proc.args[1:])
    report["extras"] = extras
    valued = {"-in", "-out", "-tree1", "-tree2", "-seqtype", "-matrix", "-gapopen", "-gapextend", "-hydrofactor", "-center"}
    opts, flags = {}, set()
    i = 0
    try:
        while i < len(a):
            if a[i] in valued:
                opts[a[i]] = a[i + 1]
                i += 2
            elif a[i].startswith("-"):
                flags.add(a[i])
                i += 1
            else:
                raise ToolFail(f"unexpected positional argument {a[i]}")
        report["opts"] = dict(opts)
        report["flags"] = sorted(flags)
        if "-in" not in opts or "-out" not in opts:
            raise ToolFail("-in and -out are required")
        rng, recs, rows, order, tree, text, label_tree = _common_msa(proc, opts["-in"], report)
        if "-matrix" in opts:
            report["matrix_in"] = parse_matrix_file(opts["-matrix"])
        tree1 = build_tree(order, rng)
        report["tree1"] = canon_tree(tree1)
        if script.get("exit", 0) == 0 or script.get("partial_output"):
            with open(opts["-out"], "w") as f:
                f.write(text)
            _count_out_fault(script)
            _count_tree_fault(script)
            for key, tr in (("-tree1", tree1), ("-tree2", tree)):
                if key in opts:
                    tfault = script.get("tree", "ok") if key == "-tree2" else script.get("tree1", script.get("tree", "ok"))
                    t = _tree_text(tfault, newick(tr, label=lambda i: recs[i][0]), rng)
                    if t is not None:
                        with open(opts[key], "w") as f:
                            f.write(t + ("\n" if t else ""))
    except ToolFail as e:
        report["tool_error"] = e.msg
        return e.code, "", e.msg + "\n", report
    return _finish(proc, report)


def tool_muscle5(proc):
    script = proc.rec.script
    report = {"argv": list(proc.args), "cwd": proc.launch_cwd}
    extras, a = split_extras(proc.args[1:])
    report["extras"] = extras
    valued = {"-align", "-super5", "-output", "-threads", "-consiters", "-refineiters"}
    opts, flags = {}, set()
    i = 0
    try:
        while i < len(a):
            if a[i] in valued:
                opts[a[i]] = a[i + 1]
                i += 2
            elif a[i].startswith("-"):
                flags.add(a[i])
                i += 1
            else:
                raise ToolFail(f"unexpected positional argument {a[i]}")
        report["opts"] = dict(opts)
        report["flags"] = sorted(flags)
        inp = opts.get("-align") or opts.get("-super5")
        if inp is None or "-output" not in opts:
            raise ToolFail("-align/-super5 and -output are required")
        rng, recs, rows, order, tree, text, label_tree = _common_msa(proc, inp, report)
        if script.get("exit", 0) == 0 or script.get("partial_output"):
            with open(opts["-output"], "w") as f:
                f.write(text)
            _count_out_fault(script)
    except ToolFail as e:
        report["tool_error"] = e.msg
        return e.code, "", e.msg + "\n", report
    return _finish(proc, report)


def tool_stubmsa(proc):
    """The program behind the bare MSAApp subclass: -in FILE -out FILE -seqtype protein|nucleotide [-matrix FILE]."""
    script = proc.rec.script
    report = {"argv": list(proc.args), "cwd": proc.launch_cwd}
    extras, a = split_extras(proc.args[1:])
    report["extras"] = extras
    valued = {"-in", "-out", "-seqtype", "-matrix"}
    opts, flags = {}, set()
    i = 0
    try:
        while i < len(a):
            if a[i] in valued:
                opts[a[i]] = a[i + 1]
                i += 2
            else:
                raise ToolFail(f"unexpected argument {a[i]}")
        report["opts"] = dict(opts)
        report["flags"] = sorted(flags)
        if "-in" not in opts or "-out" not in opts or opts.get("-seqtype") not in ("protein", "nucleotide"):
            raise ToolFail("-in, -out and -seqtype protein|nucleotide are required")
        rng, recs, rows, order, tree, text, label_tree = _common_msa(proc, opts["-in"], report)
        if "-matrix" in opts:
            report["matrix_in"] = parse_matrix_file(opts["-matrix"])
        if script.get("exit", 0) == 0 or script.get("partial_output"):
            with open(opts["-out"], "w") as f:
                f.write(text)
            _count_out_fault(script)
    except ToolFail as e:
        report["tool_error"] = e.msg
        return e.code, "", e.msg + "\n", report
    return _finish(proc, report)


def tool_mafft(proc):
    script = proc.rec.script
    report = {"argv": list(proc.args), "cwd": proc.launch_cwd}
    extras, a = split_extras(proc.args[1:])
    report["extras"] = extras
    valued = {"--aamatrix"}
    opts, flags, pos = {}, set(), []
    i = 0
    out_text = ""
    try:
        while i < len(a):
            if a[i] in valued:
                opts[a[i]] = a[i + 1]
                i += 2
            elif a[i].startswith("--"):
                flags.add(a[i])
                i += 1
            else:
                pos.append(a[i])
                i += 1
        report["opts"] = dict(opts)
        report["flags"] = sorted(flags)
        if len(pos) != 1:
            raise ToolFail("exactly one input file expected")
        rng, recs, rows, order, tree, text, label_tree = _common_msa(proc, pos[0], report)
        if "--aamatrix" in opts:
            report["matrix_in"] = parse_matrix_file(opts["--aamatrix"])
        if "--reorder" not in flags:
            raise ToolFail("this fake always reorders; --reorder expected")
        if script.get("exit", 0) == 0 or script.get("partial_output"):
            out_text = text
            _count_out_fault(script)
            if "--treeout" in flags:
                _count_tree_fault(script)
                good = newick(tree, label=lambda i: f"{i + 1}_{recs[i][0]}")
                t = _tree_text(script.get("tree", "ok"), good, rng)
                if t is not None:
                    with open(pos[0] + ".tree", "w") as f:
                        f.write(t + ("\n" if t else ""))
    except ToolFail as e:
        report["tool_error"] = e.msg
        return e.code, "", e.msg + "\n", report
    return _finish(proc, report, out_text)


def tool_stub(proc):
    script = proc.rec.script
    report = {"argv": list(proc.args), "cwd": proc.launch_cwd}
    extras, a = split_extras(proc.args[1:])
    report["extras"] = extras
    out = "args:" + "|".join(proc.args[1:]) + "\n" + script.get("stdout", "")
    if script.get("exit", 0) != 0:
        SimPopen.world.stats["fault:nonzero-exit"] += 1
    return script.get("exit", 0), out, script.get("stderr", ""), report
