#!/venv/bin/python
"""Collect one sub-agent change from its scratch worktree, confirm it independently, run the check against it.

usage: tools_collect_seed.py <seed-id> <PROP> <worktree> "<needs>" <test paths...>

Steps (nothing is written into /repo):
  1. patch.diff  = git diff of the worktree (tracked Python/pyx sources); c_patch.diff = bonds_c.diff if present
  2. demo_break.py copied
  3. in a fresh scratch copy of /repo's current sources: demo exits 0 without the patch, 1 with it; the named
     tests give the same pass/fail sets with and without it
  4. the property's quick check is run against the patched scratch copy (expect exit 1 + VIOLATION)
  5. meta.json records all of it
"""
import json
import os
import shutil
import subprocess
import sys
import tempfile

HERE = os.path.dirname(os.path.abspath(__file__))
sys.path.insert(0, HERE)
import selftest  # noqa: E402

PY = sys.executable


def run(cmd, cwd=None, env=None, timeout=3600):
    p = subprocess.run(cmd, cwd=cwd, env=env, capture_output=True, text=True, timeout=timeout)
    return p.returncode, p.stdout + p.stderr


def pytest_outcomes(repo_like, src, tests):
    """set of failing test ids + counts, running the repo's tests against the sources in src"""
    env = dict(os.environ)
    env["PYTHONPATH"] = src
    x = os.path.join(tempfile.mkdtemp(prefix="junit-"), "j.xml")
    rc, out = run([PY, "-m", "pytest", *tests, "-q", "-p", "no:cacheprovider", f"--junitxml={x}", "-n", "8"], cwd=repo_like, env=env)
    import xml.etree.ElementTree as ET

    passed, failed = set(), set()
    try:
        for tc in ET.parse(x).getroot().iter("testcase"):
            tid = f"{tc.get('classname')}::{tc.get('name')}"
            if any(c.tag in ("failure", "error") for c in tc):
                failed.add(tid)
            elif not any(c.tag == "skipped" for c in tc):
                passed.add(tid)
    finally:
        shutil.rmtree(os.path.dirname(x), ignore_errors=True)
    return passed, failed


def main():
    sid, prop, wt, needs = sys.argv[1:5]
    tests = sys.argv[5:]
    d = os.path.join(HERE, "seeded", sid)
    os.makedirs(d, exist_ok=True)
    rc, diff = run(["git", "-C", wt, "diff", "--", "src"])
    open(os.path.join(d, "patch.diff"), "w").write(diff)
    shutil.copy(os.path.join(wt, "demo_break.py"), os.path.join(d, "demo_break.py"))
    cpatch = os.path.join(wt, "bonds_c.diff")
    has_c = os.path.isfile(cpatch)
    if has_c:
        # normalise the header so that it applies with -p0 to src/biotite/structure/bonds.c
        text = open(cpatch).read().splitlines(keepends=True)
        text = [("--- a/src/biotite/structure/bonds.c\n" if l.startswith("--- ") else "+++ b/src/biotite/structure/bonds.c\n" if l.startswith("+++ ") else l) for l in text]
        open(os.path.join(d, "c_patch.diff"), "w").write("".join(text))

    meta = {"id": sid, "property": prop, "needs": needs, "source": "independent sub-agent in a scratch worktree (given only the property text)",
            "files": ["patch.diff", "demo_break.py"] + (["c_patch.diff"] if has_c else []), "ran": []}

    def patched_copy(apply):
        root, src = selftest.make_copy()
        if has_c:
            shutil.copy("/repo/src/biotite/structure/bonds.c", os.path.join(src, "biotite/structure/bonds.c"))
            os.utime(os.path.join(src, "biotite/structure/bonds.c"), (1, 1))  # older than the .so unless patched
        if apply:
            rc, out = run(["patch", "-p1", "-d", root, "-i", os.path.join(d, "patch.diff")])
            assert rc == 0, out
            if has_c:
                rc, out = run(["patch", "-p1", "-d", root, "-i", os.path.join(d, "c_patch.diff")])
                assert rc == 0, out
                os.utime(os.path.join(src, "biotite/structure/bonds.c"), None)
                selftest.rebuild_in(src)
        return root, src

    # 3. demo and tests, without and with the change
    res = {}
    for label, apply in (("without", False), ("with", True)):
        root, src = patched_copy(apply)
        try:
            env = dict(os.environ)
            env["PYTHONPATH"] = src
            rc, out = run([PY, os.path.join(d, "demo_break.py")], cwd=root, env=env, timeout=600)
            res[label] = {"demo_exit": rc, "demo_tail": out.strip().splitlines()[-3:]}
            if tests:
                p, f = pytest_outcomes("/repo", src, tests)
                res[label]["tests_passed"] = len(p)
                res[label]["tests_failed"] = len(f)
                res[label]["_failed"] = f
                res[label]["_passed"] = p
        finally:
            shutil.rmtree(root, ignore_errors=True)
    new_fail = sorted((res["with"].get("_failed", set()) - res["without"].get("_failed", set())) |
                      (res["without"].get("_passed", set()) - res["with"].get("_passed", set())))
    for r in res.values():
        r.pop("_failed", None)
        r.pop("_passed", None)
    meta["confirmation"] = res
    meta["new_test_failures"] = new_fail
    meta["tests_run"] = tests
    ok_demo = res["without"]["demo_exit"] == 0 and res["with"]["demo_exit"] == 1
    meta["confirmed"] = bool(ok_demo and not new_fail)
    # 4. the check
    root, src = patched_copy(True)
    try:
        rc, out, err = selftest.run_check_against(src, prop)
        sigs = [l for l in out.splitlines() if l.startswith("violation signature")]
        meta["check"] = {"cmd": f"check.py {prop} --tier quick (PYTHONPATH=<patched copy>)", "exit": rc, "signatures": sigs[:5]}
        meta["expected"] = "detected" if rc == 1 else "missed"
        # keep one minimised replay as illustration
        rdir = os.path.join(root, "replays")
        if os.path.isdir(rdir) and os.listdir(rdir):
            first = sorted(os.listdir(rdir))[0]
            shutil.copy(os.path.join(rdir, first), os.path.join(d, "replay.json"))
            meta["files"].append("replay.json")
    finally:
        shutil.rmtree(root, ignore_errors=True)
    json.dump(meta, open(os.path.join(d, "meta.json"), "w"), indent=1)
    print(json.dumps({k: meta[k] for k in ("id", "confirmed", "new_test_failures", "confirmation", "check", "expected")}, indent=1))


if __name__ == "__main__":
    main()
