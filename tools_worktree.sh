#!/bin/bash
# usage: tools_worktree.sh add <dir> | remove <dir>
# creates a scratch git worktree of /repo HEAD outside /repo and /verif, with the pre-built extension modules copied in
set -e
if [ "$1" = "add" ]; then
  git -C /repo worktree add --detach "$2" HEAD >/dev/null 2>&1
  (cd /repo && find src \( -name '*.so' -o -name version.py \) -print0 | rsync -a --from0 --files-from=- /repo/ "$2"/)
  echo "worktree at $2 (run with PYTHONPATH=$2/src)"
elif [ "$1" = "remove" ]; then
  git -C /repo worktree remove --force "$2"
  git -C /repo worktree prune
fi
