import json,sys
for p in sys.argv[1:]:
    r=json.load(open(p))
    print(p, r['signature'], r['original_ops'],'->',r['minimised_ops'])
    print(' detail', json.dumps(r['detail'])[:800])
    cfg=r['spec'].get('cfg',{})
    for w in cfg.get('wrappers',[]): print('  W', {k:v for k,v in w.items()})
    print('  cfg', {k:v for k,v in cfg.items() if k!='wrappers'})
    for o in r['spec']['ops']: print('   ', o)
